"""C08 - Goal-region membership is decided correctly."""
import math

import numpy as np

from commonroad.common.util import AngleInterval, Interval
from commonroad.geometry.shape import Circle, Polygon, Rectangle, ShapeGroup
from commonroad.planning.goal import GoalRegion
from commonroad.planning.planning_problem import PlanningProblem
from commonroad.scenario import state as st
from commonroad.scenario.trajectory import Trajectory

from symex import symmath
from symex.api import obligation

TWO_PI = 2.0 * math.pi
B = 1000.0
ASSUMPTIONS = ["|coordinates| <= 1000; orientations, angle-interval end points in [-2pi,2pi], interval length < 2pi",
               "goal polygons from a concrete family (convex triangle/quadrilateral, one non-convex arrow head) at a symbolic "
               "offset; lanelet goals = shape group of two quadrilaterals",
               "point-mass heading: the code's atan2 and the oracle's atan2(vy,vx) are the same axiomatised symbol iff the "
               "code passes the same arguments"]
OUTSIDE = ["goal polygons outside the listed family", "IEEE rounding on region boundaries"]
STUBS = ["shapely-lite point-in-polygon", "symmath atan2/sqrt/cos/sin"]
F = ["commonroad/planning/goal.py:GoalRegion.is_reached", "commonroad/planning/goal.py:GoalRegion._harmonize_state_types",
     "commonroad/planning/goal.py:GoalRegion._check_value_in_interval", "commonroad/planning/planning_problem.py:PlanningProblem.goal_reached",
     "commonroad/common/util.py:Interval.contains", "commonroad/common/util.py:AngleInterval.contains",
     "commonroad/geometry/shape.py:Rectangle.contains_point", "commonroad/geometry/shape.py:Circle.contains_point",
     "commonroad/geometry/shape.py:Polygon.contains_point", "commonroad/geometry/shape.py:ShapeGroup.contains_point"]

# (vertices, convex pieces for the oracle: each piece a list of vertex indices in counter-clockwise order)
POLYS = [
    ([[0.0, 0.0], [4.0, 0.0], [1.0, 3.0]], [[0, 1, 2]]),
    ([[0.0, 0.0], [3.0, 0.0], [3.0, 2.0], [0.0, 2.0]], [[0, 1, 2, 3]]),
    ([[-2.0, -1.0], [0.0, 0.5], [2.0, -1.0], [0.0, 4.0]], [[0, 1, 3], [1, 2, 3]]),
]
QUADS = [[[0.0, 0.0], [10.0, 0.0], [10.0, 3.0], [0.0, 3.0]], [[10.0, 0.0], [20.0, 1.0], [20.0, 4.0], [10.0, 3.0]]]


def in_convex(V, pts, p):
    """closed convex polygon, vertices counter-clockwise: p is left of (or on) every edge"""
    parts = []
    for i in range(len(pts)):
        a, b = pts[i], pts[(i + 1) % len(pts)]
        parts.append((b[0] - a[0]) * (p[1] - a[1]) - (b[1] - a[1]) * (p[0] - a[0]) >= 0)
    return V.And(parts)


class Pos:
    """a goal position of one kind with its independent oracle"""

    def __init__(self, V, kind, n):
        self.kind = kind
        if kind == "rectangle":
            self.c = (V.real(n + "cx", -B, B), V.real(n + "cy", -B, B))
            self.l, self.w = V.real(n + "len", 0.01, 100), V.real(n + "wid", 0.01, 100)
            self.th = V.real(n + "theta", -TWO_PI, TWO_PI)
            self.shape = Rectangle(self.l, self.w, np.array([self.c[0], self.c[1]]), self.th)
        elif kind == "circle":
            self.c = (V.real(n + "cx", -B, B), V.real(n + "cy", -B, B))
            self.r = V.real(n + "radius", 0.01, 100)
            self.shape = Circle(self.r, np.array([self.c[0], self.c[1]]))
        elif kind == "polygon":
            self.k = V.choice(n + "poly", len(POLYS))
            self.off = (V.real(n + "ox", -B, B), V.real(n + "oy", -B, B))
            self.pts = [(x + self.off[0], y + self.off[1]) for x, y in POLYS[self.k][0]]
            self.shape = Polygon(np.array([[x, y] for x, y in self.pts]))
        elif kind == "lanelets":
            self.off = (V.real(n + "ox", -B, B), V.real(n + "oy", -B, B))
            self.quads = [[(x + self.off[0], y + self.off[1]) for x, y in q] for q in QUADS]
            self.shape = ShapeGroup([Polygon(np.array([[x, y] for x, y in q])) for q in self.quads])
        elif kind == "group":
            self.a, self.b = Pos(V, "rectangle", n + "g0"), Pos(V, "circle", n + "g1")
            self.shape = ShapeGroup([self.a.shape, self.b.shape])
        else:
            raise ValueError(kind)

    def local(self, V, p):
        """coordinates (u, v) of p in the rectangle frame.  Symbolically they are fresh reals tied to p by
        p = centre + R(theta)(u, v): such (u, v) exist for every p because R(theta) is invertible, so nothing is lost,
        and the solver sees the frame change as linear equalities instead of having to discover it."""
        c, s = V.cos(self.th), V.sin(self.th)
        if not V.symbolic:
            dx, dy = p[0] - self.c[0], p[1] - self.c[1]
            return c * dx + s * dy, -s * dx + c * dy
        self._n = getattr(self, "_n", 0) + 1
        u, v = V.real(f"local_u{id(self) % 1000}_{self._n}"), V.real(f"local_v{id(self) % 1000}_{self._n}")
        V.assume(V.And(V.eq(p[0], self.c[0] + c * u - s * v), V.eq(p[1], self.c[1] + s * u + c * v)))
        return u, v

    def spec(self, V, p):
        if self.kind == "rectangle":
            u, v = self.local(V, p)
            return V.And(2 * u <= self.l, -2 * u <= self.l, 2 * v <= self.w, -2 * v <= self.w)
        if self.kind == "circle":
            dx, dy = p[0] - self.c[0], p[1] - self.c[1]
            return dx * dx + dy * dy <= self.r * self.r
        if self.kind == "polygon":
            return V.Or([in_convex(V, [self.pts[i] for i in piece], p) for piece in POLYS[self.k][1]])
        if self.kind == "lanelets":
            return V.Or([in_convex(V, q, p) for q in self.quads])
        if self.kind == "group":
            return V.Or(self.a.spec(V, p), self.b.spec(V, p))


def mod_contains(V, a, b, x):
    return V.exists_int(-3, 3, lambda k: V.And(a <= x + TWO_PI * k, x + TWO_PI * k <= b))


class Goal:
    def __init__(self, V, n, pos_kind, with_o, with_v):
        self.t_lo, self.t_hi = V.int(n + "t_lo", 0), V.int(n + "t_hi", 0)
        V.assume(self.t_lo <= self.t_hi)
        kw = dict(time_step=Interval(self.t_lo, self.t_hi))
        self.pos = None
        if pos_kind:
            self.pos = Pos(V, pos_kind, n + "p_")
            kw["position"] = self.pos.shape
        self.o = None
        if with_o:
            a, b = V.real(n + "o_lo", -TWO_PI, TWO_PI), V.real(n + "o_hi", -TWO_PI, TWO_PI)
            V.assume(V.And(a <= b, b - a < TWO_PI))
            self.o = (a, b)
            kw["orientation"] = AngleInterval(a, b)
        self.v = None
        if with_v:
            a, b = V.real(n + "v_lo", -100, 100), V.real(n + "v_hi", -100, 100)
            V.assume(a <= b)
            self.v = (a, b)
            kw["velocity"] = Interval(a, b)
        self.state = st.CustomState(**kw)

    def spec(self, V, t, p, heading, speed):
        parts = [self.t_lo <= t, t <= self.t_hi]
        if self.pos:
            parts.append(self.pos.spec(V, p))
        if self.o:
            parts.append(mod_contains(V, self.o[0], self.o[1], heading))
        if self.v:
            parts.append(V.And(self.v[0] <= speed, speed <= self.v[1]))
        return V.And(parts)


def ks_state(V, n, ints=False):
    t = V.int(n + "t", 0)
    p = (V.real(n + "x", -B, B), V.real(n + "y", -B, B))
    if ints:
        th, v = V.int(n + "theta_int", -6, 6), V.int(n + "v_int", -100, 100)
    else:
        th, v = V.real(n + "theta", -TWO_PI, TWO_PI), V.real(n + "v", -100, 100)
    s = st.KSState(time_step=t, position=np.array([p[0], p[1]]), orientation=th, velocity=v, steering_angle=0.0)
    return s, t, p, th, v


def atan2(V, y, x):
    return symmath.atan2(y, x) if V.symbolic else math.atan2(y, x)


def _mk_single(pos_kind, with_o, with_v, tier="quick"):
    name = f"ks.{pos_kind or 'nopos'}{'.orient' if with_o else ''}{'.vel' if with_v else ''}"

    @obligation("C08", name, tier=tier, functions=F,
                bounds=f"1 goal state: time interval{', ' + pos_kind + ' position' if pos_kind else ''}"
                       f"{', angle interval' if with_o else ''}{', velocity interval' if with_v else ''}; kinematic state")
    def ob(V):
        g = Goal(V, "g_", pos_kind, with_o, with_v)
        s, t, p, th, v = ks_state(V, "s_")
        got = GoalRegion([g.state]).is_reached(s)
        V.prove("is_reached <=> every constrained attribute satisfied", V.iff(bool(got), g.spec(V, t, p, th, v)))

    return ob


for _pk in ("rectangle", "circle", "polygon", "lanelets", "group"):
    _mk_single(_pk, False, False)
_mk_single(None, True, True)
_mk_single("rectangle", True, True)
_mk_single("circle", True, False, "thorough")
_mk_single("polygon", False, True, "thorough")


@obligation("C08", "ks.int-values", functions=F, bounds="kinematic state whose orientation and velocity are ints")
def ks_ints(V):
    g = Goal(V, "g_", None, True, True)
    s, t, p, th, v = ks_state(V, "s_", ints=True)
    got = GoalRegion([g.state]).is_reached(s)
    V.prove("int-valued state decided like a float-valued one", V.iff(bool(got), g.spec(V, t, p, th, v)))


@obligation("C08", "ks.two-goal-states", functions=F, bounds="2 goal states (rectangle+angle / circle+velocity): disjunction")
def two_goals(V):
    g1 = Goal(V, "g1_", "rectangle", True, False)
    g2 = Goal(V, "g2_", "circle", False, True)
    s, t, p, th, v = ks_state(V, "s_")
    got = GoalRegion([g1.state, g2.state]).is_reached(s)
    V.prove("reached <=> some goal state satisfied", V.iff(bool(got), V.Or(g1.spec(V, t, p, th, v), g2.spec(V, t, p, th, v))))


def _mk_pm(with_pos):
    @obligation("C08", f"pm.{'circle.' if with_pos else ''}orient.vel", functions=F,
                bounds="point-mass state (vx, vy): speed = hypot(vx,vy), heading = atan2(vy,vx); goal with angle and velocity interval")
    def ob(V):
        g = Goal(V, "g_", "circle" if with_pos else None, True, True)
        t = V.int("s_t", 0)
        p = (V.real("s_x", -B, B), V.real("s_y", -B, B))
        vx, vy = V.real("s_vx", -50, 50), V.real("s_vy", -50, 50)
        s = st.PMState(time_step=t, position=np.array([p[0], p[1]]), velocity=vx, velocity_y=vy)
        got = GoalRegion([g.state]).is_reached(s)
        speed = V.sqrt(vx * vx + vy * vy)
        heading = atan2(V, vy, vx)
        V.prove("pm: reached <=> spec with hypot/atan2", V.iff(bool(got), g.spec(V, t, p, heading, speed)))
        V.prove("pm: the checked state is not modified", V.And(V.eq(s.velocity, vx), V.eq(s.velocity_y, vy)))

    return ob


_mk_pm(False)
_mk_pm(True)


@obligation("C08", "pm.two-goal-states", functions=F,
            bounds="point-mass state against 2 goal states (velocity interval / angle + velocity interval): disjunction, "
                   "each goal state decided with hypot/atan2")
def pm_two_goals(V):
    g1 = Goal(V, "g1_", None, False, True)
    g2 = Goal(V, "g2_", None, True, True)
    t = V.int("s_t", 0)
    vx, vy = V.real("s_vx", -50, 50), V.real("s_vy", -50, 50)
    s = st.PMState(time_step=t, position=np.array([0.0, 0.0]), velocity=vx, velocity_y=vy)
    order = V.choice("goal_order", 2)
    goals = [g1, g2] if order == 0 else [g2, g1]
    got = GoalRegion([g.state for g in goals]).is_reached(s)
    speed = V.sqrt(vx * vx + vy * vy)
    heading = atan2(V, vy, vx)
    V.prove("pm: reached <=> some goal state satisfied (hypot/atan2 for each)",
            V.iff(bool(got), V.Or(g1.spec(V, t, (0.0, 0.0), heading, speed), g2.spec(V, t, (0.0, 0.0), heading, speed))))


@obligation("C08", "pm.first-goal-unconstrained", functions=F,
            bounds="point-mass state against 2 goal states in both orders: one constrains only time (and a circle position), the other a velocity "
                   "interval - so that the conversion to speed / heading is needed only for the later goal state")
def pm_first_goal_plain(V):
    g1 = Goal(V, "g1_", "circle" if V.choice("first_goal_has_position", 2) == 1 else None, False, False)
    g2 = Goal(V, "g2_", None, False, True)
    t = V.int("s_t", 0)
    p = (V.real("s_x", -B, B), V.real("s_y", -B, B))
    vx, vy = V.real("s_vx", -50, 50), V.real("s_vy", -50, 50)
    s = st.PMState(time_step=t, position=np.array([p[0], p[1]]), velocity=vx, velocity_y=vy)
    goals = [g1, g2] if V.choice("goal_order", 2) == 0 else [g2, g1]
    try:
        got = GoalRegion([g.state for g in goals]).is_reached(s)
    except ValueError as e:
        V.fail("the check failed for an admissible point-mass state", repr(e))
        return
    speed = V.sqrt(vx * vx + vy * vy)
    V.prove("pm: reached <=> some goal state satisfied (speed = hypot for the velocity goal)",
            V.iff(bool(got), V.Or(g1.spec(V, t, p, 0.0, speed), g2.spec(V, t, p, 0.0, speed))))


@obligation("C08", "pm.principal-directions", functions=F,
            bounds="point-mass states along the 8 principal directions with symbolic magnitude; heading known exactly")
def pm_dirs(V):
    g = Goal(V, "g_", None, True, False)
    k = V.choice("dir", 8)
    m = V.real("mag", 0.01, 50)
    dirs = [(1, 0, 0.0), (1, 1, math.pi / 4), (0, 1, math.pi / 2), (-1, 1, 3 * math.pi / 4), (-1, 0, math.pi),
            (-1, -1, -3 * math.pi / 4), (0, -1, -math.pi / 2), (1, -1, -math.pi / 4)]
    dx, dy, ang = dirs[k]
    s = st.PMState(time_step=V.int("s_t", 0), position=np.array([0.0, 0.0]), velocity=dx * m, velocity_y=dy * m)
    if V.symbolic:
        # the heading of these velocity vectors is known in closed form; tie the axiomatised atan2 to it
        V.assume(V.close(atan2(V, dy * m, dx * m), ang, 1e-12), "atan2 of a principal direction is its angle")
        V.assume(V.Not(V.Or([V.close(g.o[j] + TWO_PI * kk, ang, 1e-6) for j in (0, 1) for kk in (-2, -1, 0, 1, 2)])),
                 "interval end points not within 1e-6 of the heading (rounding band)")
    got = GoalRegion([g.state]).is_reached(s)
    V.prove("pm principal direction: reached <=> heading in interval and time in interval",
            V.iff(bool(got), V.And(g.t_lo <= s.time_step, s.time_step <= g.t_hi, mod_contains(V, g.o[0], g.o[1], ang))))


@obligation("C08", "goal_reached.trajectory", functions=F, bounds="trajectory of 1..3 kinematic states, goal = time + circle")
def goal_reached(V):
    g = Goal(V, "g_", "circle", False, False)  # (which state is reported does not depend on the kind of region; rotated rectangles: ks.rectangle)
    n = 1 + V.choice("n_states", 3)
    t0 = V.int("t0", 0)
    ps = [(V.real(f"s{i}_x", -B, B), V.real(f"s{i}_y", -B, B)) for i in range(n)]
    states = [st.KSState(time_step=t0 + i, position=np.array([ps[i][0], ps[i][1]]), orientation=0.0, velocity=1.0, steering_angle=0.0)
              for i in range(n)]
    init = st.InitialState(time_step=0, position=np.array([0.0, 0.0]), orientation=0.0, velocity=0.0, acceleration=0.0,
                           yaw_rate=0.0, slip_angle=0.0)
    pp = PlanningProblem(1, init, GoalRegion([g.state]))
    ok, idx = pp.goal_reached(Trajectory(t0, states))
    specs = [g.spec(V, t0 + i, ps[i], 0.0, 1.0) for i in range(n)]
    V.prove("success <=> some state reaches the goal", V.iff(bool(ok), V.Or(specs)))
    if ok:
        V.prove("reported index is a state that reaches the goal", V.And(0 <= idx, idx < n, specs[idx] if 0 <= idx < n else False))
    else:
        V.prove("failure reports index -1", idx == -1)

_G = "commonroad.planning.goal:GoalRegion."
MUTANTS = [
    dict(name="any-to-all", target=_G + "is_reached", old="return np.any(is_reached_list)", new="return np.all(is_reached_list)",
         only="two-goal"),
    dict(name="velocity-unchecked", target=_G + "is_reached", old='if goal_state.has_value("velocity") and state_new.has_value("velocity"):',
         new='if goal_state.has_value("velocity") and state_new.has_value("velocity") and state_new.velocity >= 0:', only="nopos"),
    dict(name="orientation-raw-interval", target=_G + "_check_value_in_interval", old="is_reached = desired_interval.contains(value)",
         new="is_reached = desired_interval.start <= value <= desired_interval.end", only="nopos"),
    dict(name="goal-reached-wrong-index", target="commonroad.planning.planning_problem:PlanningProblem.goal_reached",
         old="return True, i", new="return True, max(i - 1, 0)", only="goal_reached"),
    dict(name="pm-speed-is-vx", target=_G + "_harmonize_state_types",
         old="velocity = np.linalg.norm(np.array([state_new.velocity, state_new.velocity_y]))", new="velocity = abs(state_new.velocity)", only="pm."),
    dict(name="circle-open", target="commonroad.geometry.shape:Circle.contains_point", old="np.greater_equal(", new="np.greater(", only="ks.circle"),
    dict(name="polygon-bbox-shrunk", target="commonroad.geometry.shape:Polygon.contains_point",
         old="all(np.less_equal(point, self._max))", new="all(np.less(point, self._max))", only="ks.polygon"),
]

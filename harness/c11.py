"""C11 - Derived data never goes stale under mutation.

Symbolic-choice programs of mutators interleaved with queries (so that caches are populated before they have to be
invalidated); afterwards every query must answer as on an object rebuilt from the current primary data."""
import math
import warnings

import numpy as np

from commonroad.geometry.shape import Circle, Rectangle
from commonroad.prediction.prediction import TrajectoryPrediction
from commonroad.scenario import state as st
from commonroad.scenario.lanelet import Lanelet, LaneletNetwork
from commonroad.scenario.obstacle import DynamicObstacle, ObstacleType
from commonroad.scenario.traffic_light import TrafficLight, TrafficLightCycle, TrafficLightCycleElement, TrafficLightState
from commonroad.scenario.trajectory import Trajectory

from harness import fixtures as fx
from symex.api import obligation

TWO_PI = 2.0 * math.pi
B = 100.0
ASSUMPTIONS = ["programs of at most 3 operations (2 in the quick tier for the lanelet network), symbolic operation choice and "
               "symbolic arguments (motions, new states, query points, time steps)",
               "the cached cumulative distance of a lanelet is compared after translations (its invariance under rotation needs sqrt "
               "reasoning the solver does not finish; rotations are covered for the polygon)",
               "the reference is the same query on an object rebuilt through the public constructors from the current primary data"]
OUTSIDE = ["longer histories", "caches of objects not listed in the property"]
STUBS = ["shapely-lite / STRtree-lite", "symmath"]
F = ["commonroad/prediction/prediction.py:TrajectoryPrediction.occupancy_set", "commonroad/prediction/prediction.py:TrajectoryPrediction.translate_rotate",
     "commonroad/prediction/prediction.py:TrajectoryPrediction.trajectory", "commonroad/prediction/prediction.py:TrajectoryPrediction.shape",
     "commonroad/scenario/obstacle.py:DynamicObstacle.update_initial_state", "commonroad/scenario/obstacle.py:DynamicObstacle.update_prediction",
     "commonroad/scenario/obstacle.py:Obstacle.initial_state", "commonroad/scenario/lanelet.py:LaneletNetwork.translate_rotate",
     "commonroad/scenario/lanelet.py:LaneletNetwork.add_lanelet", "commonroad/scenario/lanelet.py:LaneletNetwork.remove_lanelet",
     "commonroad/scenario/lanelet.py:LaneletNetwork.find_lanelet_by_position", "commonroad/scenario/lanelet.py:LaneletNetwork.find_lanelet_by_shape",
     "commonroad/scenario/lanelet.py:Lanelet.translate_rotate", "commonroad/scenario/lanelet.py:Lanelet.distance",
     "commonroad/scenario/traffic_light.py:TrafficLightCycle.cycle_init_timesteps",
     "commonroad/scenario/traffic_light.py:TrafficLightCycle.get_state_at_time_step"]


def close_pt(V, a, b, tol=1e-6):
    return V.And(V.close(a[0], b[0], tol), V.close(a[1], b[1], tol))


def same_shape(V, a, b):
    if type(a) is not type(b):
        return False
    if isinstance(a, Rectangle):
        return V.And(close_pt(V, a.center, b.center), V.close(a.orientation, b.orientation, 1e-9), V.eq(a.length, b.length), V.eq(a.width, b.width))
    if isinstance(a, Circle):
        return V.And(close_pt(V, a.center, b.center), V.eq(a.radius, b.radius))
    return False


def same_occ(V, a, b):
    if a is None or b is None:
        return a is None and b is None
    return V.And(V.eq(a.time_step, b.time_step), same_shape(V, a.shape, b.shape))


def ks(t, x, y, th):
    return st.KSState(time_step=t, position=np.array([x, y]), orientation=th, velocity=1.0, steering_angle=0.0)


def _mk_prediction(k, tier):
    @obligation("C11", f"prediction.k{k}", tier=tier, functions=F, max_paths={"quick": 4000, "thorough": 40000},
                bounds=f"programs of {k} operations over {{query, translate_rotate, set trajectory, set shape}} on a trajectory "
                       "prediction with 2 states; symbolic motion / new states / query time")
    def ob(V):
        xs = [(V.real(f"x{i}", -B, B), V.real(f"y{i}", -B, B), V.real(f"th{i}", -3.0, 3.0)) for i in range(2)]
        pred = TrajectoryPrediction(Trajectory(1, [ks(1 + i, *xs[i]) for i in range(2)]), Rectangle(4.0, 2.0))
        tq = V.int("t_query", 0, 3)
        for step in range(k):
            op = V.choice(f"op{step}", 4)
            if op == 0:
                pred.occupancy_at_time_step(tq)  # populates the cache
            elif op == 1:
                pred.translate_rotate(np.array([V.real(f"tx{step}", -B, B), V.real(f"ty{step}", -B, B)]), V.real(f"a{step}", -1.0, 1.0))
            elif op == 2:
                n = (V.real(f"nx{step}", -B, B), V.real(f"ny{step}", -B, B), V.real(f"nth{step}", -3.0, 3.0))
                pred.trajectory = Trajectory(1, [ks(1, *n), ks(2, *xs[1])])
            else:
                pred.shape = Circle(V.real(f"radius{step}", 0.1, 10.0))
        fresh = TrajectoryPrediction(Trajectory(pred.trajectory.initial_time_step, list(pred.trajectory.state_list)), pred.shape)
        V.prove("occupancy at a time step = that of a rebuilt prediction", same_occ(V, pred.occupancy_at_time_step(tq), fresh.occupancy_at_time_step(tq)))
        V.prove("occupancy set has one entry per state", len(pred.occupancy_set) == len(pred.trajectory.state_list))

    return ob


_mk_prediction(2, "quick")
_mk_prediction(3, "thorough")


def _mk_obstacle(k, tier):
    @obligation("C11", f"obstacle.k{k}", tier=tier, functions=F, max_paths={"quick": 4000, "thorough": 40000},
                bounds=f"programs of {k} operations over {{query, translate_rotate, set initial state, update_prediction, "
                       "update_initial_state}} on a dynamic obstacle")
    def ob(V):
        warnings.filterwarnings("ignore")
        x0 = (V.real("x0", -B, B), V.real("y0", -B, B), V.real("th0", -3.0, 3.0))
        x1 = (V.real("x1", -B, B), V.real("y1", -B, B), V.real("th1", -3.0, 3.0))
        shape = Rectangle(4.0, 2.0)
        o = DynamicObstacle(5, ObstacleType.CAR, shape, fx.init_state(0, *x0), TrajectoryPrediction(Trajectory(1, [ks(1, *x1)]), shape))
        tq = V.int("t_query", 0, 2)
        for step in range(k):
            op = V.choice(f"op{step}", 5)
            if op == 0:
                o.occupancy_at_time(tq)
                o.state_at_time(tq)
            elif op == 1:
                o.translate_rotate(np.array([V.real(f"tx{step}", -B, B), V.real(f"ty{step}", -B, B)]), V.real(f"a{step}", -1.0, 1.0))
            elif op == 2:
                o.initial_state = fx.init_state(o.initial_state.time_step, V.real(f"nx{step}", -B, B), V.real(f"ny{step}", -B, B), 0.25)
            elif op == 3:
                t0 = o.initial_state.time_step
                o.update_prediction(TrajectoryPrediction(Trajectory(t0 + 1, [ks(t0 + 1, V.real(f"px{step}", -B, B), 1.0, 0.5)]), shape))
            else:
                t0 = o.initial_state.time_step
                o.update_initial_state(fx.init_state(t0 + 1, V.real(f"ux{step}", -B, B), 2.0, 0.0))
        pred = o.prediction
        fresh_pred = None if pred is None else TrajectoryPrediction(
            Trajectory(pred.trajectory.initial_time_step, list(pred.trajectory.state_list)), pred.shape)
        fresh = DynamicObstacle(5, ObstacleType.CAR, o.obstacle_shape, o.initial_state, fresh_pred)
        for t in (tq, tq + 1):
            V.prove("occupancy = that of a rebuilt obstacle", same_occ(V, o.occupancy_at_time(t), fresh.occupancy_at_time(t)))
            a, b = o.state_at_time(t), fresh.state_at_time(t)
            V.prove("state = that of a rebuilt obstacle", (a is None and b is None) or (a is not None and b is not None and bool(
                V.And(V.eq(a.time_step, b.time_step), close_pt(V, a.position, b.position)))))

    return ob


_mk_obstacle(2, "quick")
_mk_obstacle(3, "thorough")


@obligation("C11", "history", functions=F, max_paths={"quick": 4000, "thorough": 20000},
            bounds="update_initial_state applied n = 0..5 times; max_history_length m1 in 1..4 for the first k updates, m2 in 1..4 "
                   "afterwards (n, k, m1, m2 symbolic)")
def history(V):
    warnings.filterwarnings("ignore")
    shape = Rectangle(4.0, 2.0)
    o = DynamicObstacle(5, ObstacleType.CAR, shape, fx.init_state(0, 0.0, 0.0))
    n = V.choice("n_updates", 6)
    m1 = 1 + V.choice("max_history_length_1_minus_1", 4)
    m2 = 1 + V.choice("max_history_length_2_minus_1", 4)
    k = V.choice("switch_after", n + 1)
    xs = [V.real(f"x{i}", -B, B) for i in range(n)]
    exp_t, exp_x, exp_c = [], [], []
    prev_t, prev_x, prev_c = 0, 0.0, None
    for i in range(n):
        m = m1 if i < k else m2
        o.update_initial_state(fx.init_state(i + 1, xs[i], 0.0), None, {i}, {i, 100}, max_history_length=m)
        exp_t, exp_x, exp_c = (exp_t + [prev_t])[-m:], (exp_x + [prev_x])[-m:], (exp_c + [prev_c])[-m:]
        prev_t, prev_x, prev_c = i + 1, xs[i], {i}
    V.prove("history lists have equal length", len(o.history) == len(o.signal_history) == len(o.center_lanelet_ids_history) ==
            len(o.shape_lanelet_ids_history) == len(exp_t))
    V.prove("history keeps the most recent previous states in order", [s.time_step for s in o.history] == exp_t)
    V.prove("history states are the previous initial states", V.And([V.eq(s.position[0], e) for s, e in zip(o.history, exp_x)]))
    V.prove("lanelet-id histories follow the same window", o.center_lanelet_ids_history == exp_c)
    V.prove("update invalidates the prediction", n == 0 or o.prediction is None)


def net3():
    net = LaneletNetwork()
    for lid, (x0, y0) in {1: (0.0, 0.0), 2: (10.0, 0.0), 3: (0.0, 5.0)}.items():
        net.add_lanelet(fx.straight_lanelet(lid, x0, y0))
    return net


def _mk_network(k, tier, with_shape):
    @obligation("C11", f"network.k{k}{'.shape' if with_shape else ''}", tier=tier, functions=F, max_paths={"quick": 6000, "thorough": 60000},
                bounds=f"programs of {k} operations over {{query, translate (symbolic vector), rotate by a quarter turn, add a lanelet, "
                       "remove a lanelet, remove without index rebuild + add}} on a 3-lanelet network; symbolic query point"
                       + (" and a 1x1 query rectangle around it" if with_shape else ""))
    def ob(V):
        warnings.filterwarnings("ignore")
        net = net3()
        q = (V.real("qx", -40, 40), V.real("qy", -40, 40))
        for step in range(k):
            op = V.choice(f"op{step}", 6)
            if op == 5:
                # remove without rebuilding the index, then add (which rebuilds it)
                net.remove_lanelet(1, rtree=False)
                net.add_lanelet(fx.straight_lanelet(8 + step, 0.0, -5.0))
            elif op == 0:
                net.find_lanelet_by_position([np.array([q[0], q[1]])])
            elif op == 1:
                net.translate_rotate(np.array([V.real(f"tx{step}", -20, 20), V.real(f"ty{step}", -20, 20)]), 0.0)
            elif op == 2:
                net.translate_rotate(np.array([0.0, 0.0]), math.pi / 2)
            elif op == 3:
                net.add_lanelet(fx.straight_lanelet(4 + step, 20.0, 0.0))
            else:
                net.remove_lanelet(2)
        fresh = LaneletNetwork.create_from_lanelet_list(list(net.lanelets))
        if not with_shape:
            got = net.find_lanelet_by_position([np.array([q[0], q[1]])])[0]
            exp = fresh.find_lanelet_by_position([np.array([q[0], q[1]])])[0]
            V.prove("lookup by position = lookup in a rebuilt network", sorted(got) == sorted(exp))
        else:
            shp = Rectangle(1.0, 1.0, np.array([q[0], q[1]]))
            V.prove("lookup by shape = lookup in a rebuilt network", sorted(net.find_lanelet_by_shape(shp)) == sorted(fresh.find_lanelet_by_shape(shp)))

    return ob


_mk_network(2, "quick", False)
_mk_network(1, "quick", True)
_mk_network(3, "thorough", False)
_mk_network(2, "thorough", True)


@obligation("C11", "lanelet.distance", functions=F, bounds="lanelet (3 vertices, symbolic middle vertex): query distance, translate "
                                                            "(symbolic vector), query again vs. a rebuilt lanelet")
def lanelet_distance(V):
    mx, my = V.real("mx", 3.0, 7.0), V.real("my", -1.0, 1.0)
    mk = lambda dy: np.array([[0.0, dy], [mx, my + dy], [10.0, dy]])
    la = Lanelet(mk(1.5), mk(0.0), mk(-1.5), 1)
    if V.flag("query_first"):
        la.distance
    la.translate_rotate(np.array([V.real("tx", -B, B), V.real("ty", -B, B)]), 0.0)
    fresh = Lanelet(la.left_vertices, la.center_vertices, la.right_vertices, 1)
    V.prove("cumulative distance = that of a rebuilt lanelet", V.And([V.close(la.distance[i], fresh.distance[i], 1e-6) for i in range(3)]))


@obligation("C11", "lanelet.polygon", functions=F, bounds="lanelet (3 vertices, symbolic middle vertex): query polygon, translate_rotate "
                                                           "(symbolic), query again vs. a rebuilt lanelet")
def lanelet_polygon(V):
    mx, my = V.real("mx", 3.0, 7.0), V.real("my", -1.0, 1.0)
    mk = lambda dy: np.array([[0.0, dy], [mx, my + dy], [10.0, dy]])
    la = Lanelet(mk(1.5), mk(0.0), mk(-1.5), 1)
    if V.flag("query_first"):
        la.polygon
    la.translate_rotate(np.array([V.real("tx", -B, B), V.real("ty", -B, B)]), V.real("a", -1.0, 1.0))
    fresh = Lanelet(la.left_vertices, la.center_vertices, la.right_vertices, 1)
    pv, fv = la.polygon.vertices, fresh.polygon.vertices
    V.prove("polygon = that of a rebuilt lanelet", V.And(len(pv) == len(fv), [close_pt(V, pv[i], fv[i]) for i in range(min(len(pv), len(fv)))]))


COL = [TrafficLightState.RED, TrafficLightState.GREEN, TrafficLightState.YELLOW]


def _mk_light(k, tier):
    @obligation("C11", f"traffic-light.k{k}", tier=tier, functions=F, max_paths={"quick": 4000, "thorough": 40000},
                bounds=f"programs of {k} operations over {{query, set cycle elements, set offset}}; symbolic durations, offsets, time")
    def ob(V):
        d = [V.int(f"d{i}", 1, 20) for i in range(2)]
        cyc = TrafficLightCycle([TrafficLightCycleElement(COL[i], d[i]) for i in range(2)], V.int("off", 0, 20))
        tl = TrafficLight(7, np.array([0.0, 0.0]), cyc)
        t = V.int("t", -50, 50)
        for step in range(k):
            op = V.choice(f"op{step}", 3)
            if op == 0:
                tl.get_state_at_time_step(t)
            elif op == 1:
                nd = [V.int(f"nd{step}_{i}", 1, 20) for i in range(3)]
                cyc.cycle_elements = [TrafficLightCycleElement(COL[(i + 1) % 3], nd[i]) for i in range(3)]
            else:
                cyc.time_offset = V.int(f"noff{step}", 0, 20)
        fresh = TrafficLightCycle(list(cyc.cycle_elements), cyc.time_offset)
        V.prove("state = that of a rebuilt cycle", tl.get_state_at_time_step(t) is fresh.get_state_at_time_step(t))

    return ob


_mk_light(2, "quick")
_mk_light(3, "thorough")


MUTANTS = [
    dict(name="occupancy-cache-never-dropped", target="commonroad.prediction.prediction:TrajectoryPrediction._invalidate_occupancy_set",
         old="            del self.occupancy_set", new="            pass", only="prediction.k2"),
    dict(name="history-keeps-one-too-many", target="commonroad.scenario.obstacle:DynamicObstacle.update_initial_state",
         old="            self.history = self.history[-max_history_length:]", new="            self.history = self.history[-max_history_length - 1:]", only="history"),
    dict(name="index-not-rebuilt-on-add", target="commonroad.scenario.lanelet:LaneletNetwork.add_lanelet", old="            if rtree:\n                self._create_strtree()",
         new="            if rtree and False:\n                self._create_strtree()", only="network.k2"),
    dict(name="polygon-not-rebuilt-on-move", target="commonroad.scenario.lanelet:Lanelet.translate_rotate",
         old="        self._polygon = Polygon(np.concatenate((self.right_vertices, np.flip(self.left_vertices, 0))))", new="        pass", only="lanelet.polygon"),
]

"""C19 - Rendering is total and shows the model at the selected time.

The renderer's time-window logic runs on symbolic integers (time_begin, time_end, initial time steps and horizons of the
obstacles); every comparison it makes is a solver-decided fork, so all windows within the bounds - before, inside, at the ends
of and after each obstacle's horizon - are covered.  On each path the patches the real MPRenderer collected are compared
with the occupancies the model reports.  Parameter propagation is checked for every (group, declared parameter) pair with
symbolic values and a symbolic earlier setting; totality over every combination of the draw flags."""
import dataclasses
import warnings
from collections import Counter

import matplotlib

matplotlib.use("Agg")
import matplotlib.patches as mpatches  # noqa: E402
import matplotlib.pyplot as plt  # noqa: E402
import numpy as np  # noqa: E402

from commonroad.common.util import Interval  # noqa: E402
from commonroad.geometry.shape import Circle, Polygon, Rectangle, ShapeGroup  # noqa: E402
from commonroad.planning.goal import GoalRegion  # noqa: E402
from commonroad.planning.planning_problem import PlanningProblem, PlanningProblemSet  # noqa: E402
from commonroad.prediction.prediction import Occupancy, SetBasedPrediction, TrajectoryPrediction  # noqa: E402
from commonroad.scenario import state as st  # noqa: E402
from commonroad.scenario.intersection import Intersection, IntersectionIncomingElement  # noqa: E402
from commonroad.scenario.lanelet import LaneletNetwork  # noqa: E402
from commonroad.scenario.obstacle import (DynamicObstacle, EnvironmentObstacle, ObstacleType, PhantomObstacle, SignalState,  # noqa: E402
                                          StaticObstacle)
from commonroad.scenario.trajectory import Trajectory  # noqa: E402
from commonroad.visualization.draw_params import BaseParam, MPDrawParams  # noqa: E402
from commonroad.visualization.mp_renderer import MPRenderer  # noqa: E402

from harness import fixtures as fx  # noqa: E402
from harness import xmlrt  # noqa: E402
from symex.api import obligation  # noqa: E402

ASSUMPTIONS = [
    "time window 0 <= time_begin <= time_end <= time_begin + 4 with time_begin in 0..8 (symbolic integers); initial time steps of the "
    "dynamic obstacles symbolic in 0..3, prediction horizons of 2..3 steps; geometry concrete and pairwise distinct so that each "
    "patch identifies the occupancy it shows",
    "observation: the patches the real MPRenderer collected in obstacle_patches between draw and render (polygon vertices, ellipse "
    "centre and axes), the polygons of the lanelet fill collection, exceptions of draw / render, field values of the nested "
    "draw-parameter objects",
    "expected drawing: computed from the model (occupancy_at_time of every obstacle) and the shapes' own attributes, not through "
    "the shapes' draw methods",
    "totality: every combination of the listed boolean draw flags x id filters x a symbolic time window, concrete geometry, real "
    "matplotlib (Agg backend)",
]
OUTSIDE = ["pixel output of matplotlib", "video creation (ffmpeg)", "windows wider than 4 steps", "traffic-sign image files",
           "flag combinations beyond the listed flags"]
STUBS = []
F = ["commonroad/visualization/mp_renderer.py:MPRenderer.draw_scenario", "commonroad/visualization/mp_renderer.py:MPRenderer.draw_dynamic_obstacle",
     "commonroad/visualization/mp_renderer.py:MPRenderer.draw_static_obstacle", "commonroad/visualization/mp_renderer.py:MPRenderer.draw_phantom_obstacle",
     "commonroad/visualization/mp_renderer.py:MPRenderer.draw_environment_obstacle", "commonroad/visualization/mp_renderer.py:MPRenderer._draw_occupancy",
     "commonroad/visualization/mp_renderer.py:MPRenderer.draw_trajectory", "commonroad/visualization/mp_renderer.py:MPRenderer.draw_lanelet_network",
     "commonroad/visualization/mp_renderer.py:MPRenderer.draw_planning_problem_set", "commonroad/visualization/mp_renderer.py:MPRenderer.render",
     "commonroad/visualization/draw_params.py:BaseParam.__setattr__", "commonroad/visualization/draw_params.py:BaseParam.__post_init__"]


def install_shims():
    """geometry is concrete in this harness and matplotlib needs real arrays: the visualization modules get the real numpy /
    shapely / math and builtins back (only the time parameters are symbolic integers, which need no shadowing there)"""
    import math
    import sys

    import numpy
    import shapely

    for name, mod in list(sys.modules.items()):
        if name.startswith("commonroad.visualization") and mod is not None:
            d = mod.__dict__
            for k in ("isinstance", "float", "int", "round", "hash", "frozenset"):
                d.pop(k, None)
            if "math" in d:
                d["math"] = math
            if "shapely" in d:
                d["shapely"] = shapely
            for alias in ("np", "npy", "numpy"):
                if alias in d:
                    d[alias] = numpy


# ---- scenario ------------------------------------------------------------------------------------------------------------
def traj_obstacle(oid, t0, x, n=3, shape=None, signals=False):
    shape = shape or Rectangle(2.0, 1.0)
    init = st.InitialState(time_step=t0, position=np.array([x, 0.0]), orientation=0.0, velocity=1.0, acceleration=0.0, yaw_rate=0.0, slip_angle=0.0)
    states = [st.KSState(time_step=t0 + i, position=np.array([x, 3.0 * i]), orientation=0.0, velocity=1.0, steering_angle=0.0) for i in range(1, n + 1)]
    kw = {}
    if signals:
        kw = dict(initial_signal_state=SignalState(time_step=t0, braking_lights=True, indicator_left=True, indicator_right=False, horn=True,
                                                   hazard_warning_lights=False, flashing_blue_lights=True),
                  signal_series=[SignalState(time_step=t0 + i, braking_lights=i % 2 == 0, indicator_left=False, indicator_right=True, horn=False,
                                             hazard_warning_lights=True, flashing_blue_lights=False) for i in range(1, n + 1)])
    return DynamicObstacle(oid, ObstacleType.CAR, shape, init, TrajectoryPrediction(Trajectory(t0 + 1, states), shape), **kw)


def set_obstacle(oid, t0, x, n=3):
    init = st.InitialState(time_step=t0, position=np.array([x, 0.0]), orientation=0.0, velocity=1.0, acceleration=0.0, yaw_rate=0.0, slip_angle=0.0)
    occs = [Occupancy(t0 + i, Rectangle(1.0 + 0.25 * i, 1.0, np.array([x, 3.0 * i]))) for i in range(1, n + 1)]
    return DynamicObstacle(oid, ObstacleType.PEDESTRIAN, Circle(0.75), init, SetBasedPrediction(t0 + 1, occs))


ROLES = ["trajectory_obstacle", "setbased_obstacle", "no_prediction", "phantom", "polygon_obstacle"]


def scenario(V, symbolic_times=True, only=None):
    """`only`: the one obstacle whose initial time step is symbolic (the others start at fixed, different steps)"""
    I = (lambda n, lo, hi, d: V.int(n, lo, hi) if (only is None or n == "t0_" + only) else d) if symbolic_times else (lambda n, lo, hi, d: d)
    sc = xmlrt.base_scenario()
    sc.add_objects([fx.straight_lanelet(1, -5.0, -20.0, 60.0), fx.straight_lanelet(2, -5.0, -17.0, 60.0), fx.straight_lanelet(3, -5.0, -14.0, 60.0)])
    sc.add_objects(StaticObstacle(30, ObstacleType.PARKED_VEHICLE, Rectangle(3.0, 1.5), fx.init_state(0, 0.0, -8.0)))
    sc.add_objects(traj_obstacle(31, I("t0_trajectory_obstacle", 0, 3, 1), 10.0))
    sc.add_objects(set_obstacle(32, I("t0_setbased_obstacle", 0, 3, 2), 20.0))
    sc.add_objects(DynamicObstacle(33, ObstacleType.BICYCLE, Circle(0.5), st.InitialState(time_step=I("t0_no_prediction", 0, 3, 1), position=np.array([30.0, 0.0]),
                                                                                      orientation=0.0, velocity=0.0, acceleration=0.0, yaw_rate=0.0, slip_angle=0.0)))
    tp = I("t0_phantom", 0, 3, 2)
    sc.add_objects(PhantomObstacle(34, SetBasedPrediction(tp, [Occupancy(tp + i, Circle(0.5 + 0.25 * i, np.array([40.0, 3.0 * i]))) for i in range(2)])))
    sc.add_objects(EnvironmentObstacle(35, ObstacleType.BUILDING, Polygon(np.array([[45.0, 5.0], [50.0, 5.0], [50.0, 9.0], [45.0, 9.0]]))))
    sc.add_objects(traj_obstacle(36, I("t0_polygon_obstacle", 0, 3, 0), 55.0, 2, Polygon(np.array([[-1.0, -1.0], [1.5, -1.0], [0.0, 1.0]]))))
    return sc


# ---- observation and model --------------------------------------------------------------------------------------------------
def sig_polygon(xy):
    pts = [tuple(round(float(c), 6) for c in p) for p in np.asarray(xy)]
    if len(pts) > 1 and pts[0] == pts[-1]:
        pts = pts[:-1]
    return ("polygon",) + tuple(pts)


def patch_signature(p):
    if type(p) is mpatches.Ellipse:
        return ("ellipse", round(float(p.center[0]), 6), round(float(p.center[1]), 6), round(float(p.width), 6), round(float(p.height), 6))
    if type(p) is mpatches.Polygon:  # (arrows and state markers are subclasses: they are not occupancies)
        return sig_polygon(p.get_xy())
    return ("other", type(p).__name__)


def shape_signatures(shape):
    if isinstance(shape, ShapeGroup):
        return [s for sub in shape.shapes for s in shape_signatures(sub)]
    if isinstance(shape, Circle):
        return [("ellipse", round(float(shape.center[0]), 6), round(float(shape.center[1]), 6), round(2.0 * shape.radius, 6), round(2.0 * shape.radius, 6))]
    return [sig_polygon(shape.vertices)]


def expected_patches(sc, t_begin, t_end):
    out = []
    for o in sc.obstacles:
        steps = [t_begin]
        if isinstance(o, DynamicObstacle) and isinstance(o.prediction, SetBasedPrediction):
            steps += list(range(t_begin + 1, t_end))
        for t in steps:
            occ = o.occupancy_at_time(t)
            if occ is not None:
                out += shape_signatures(occ.shape)
    return Counter(out)


def shapes_only(params):
    d = params.dynamic_obstacle
    d.draw_shape, d.draw_icon, d.draw_signals, d.draw_direction, d.draw_initial_state, d.show_label = True, False, False, False, False, False
    d.trajectory.draw_trajectory = False
    d.occupancy.draw_occupancies = False
    d.history.draw_history = False
    params.phantom_obstacle.draw_shape = True
    params.phantom_obstacle.occupancy.draw_occupancies = False
    params.lanelet_network.traffic_light.draw_traffic_lights = False
    params.lanelet_network.traffic_sign.draw_traffic_signs = False


def window(V):
    tb = V.int("time_begin", 0, 8)
    te = V.int("time_end", 0, 12)
    V.assume(V.And(tb <= te, te <= tb + 4))
    return tb, te


def concrete(x):
    return x.__index__() if hasattr(x, "__index__") and not isinstance(x, int) else x


def _shapes(role, tier="quick"):
    @obligation("C19", f"shapes-are-the-occupancies.{role}", tier=tier, functions=F, max_paths={"quick": 6000, "thorough": 60000},
                bounds="7 obstacles of every role (static, trajectory, set-based, no prediction, phantom, environment, polygon-shaped); symbolic initial "
                       f"time step 0..3 of {'every obstacle' if role == 'all' else 'the ' + role + ' (the others fixed)'} and symbolic window "
                       "0 <= time_begin <= time_end <= time_begin+4, time_begin 0..8; time window set at the top level")
    def shapes_are_occupancies(V):
        warnings.filterwarnings("ignore")
        sc = scenario(V, only=None if role == "all" else role)
        tb, te = window(V)
        fig = plt.figure(figsize=(4, 3))
        try:
            rnd = MPRenderer(ax=fig.gca())
            shapes_only(rnd.draw_params)
            rnd.draw_params.time_begin = tb
            rnd.draw_params.time_end = te
            sc.draw(rnd)
            drawn = Counter(patch_signature(p) for p in rnd.obstacle_patches)
            tbc, tec = concrete(tb), concrete(te)
            want = expected_patches(sc, tbc, tec)
            V.prove("every occupancy the model reports in the window is drawn", all(drawn[k] >= n for k, n in want.items()))
            V.prove("nothing is drawn that the model does not report", all(want[k] >= n for k, n in drawn.items()))
            fills = [c for c in rnd.static_collections if type(c).__name__ == "PolyCollection"]
            got = Counter(sig_polygon(p.vertices) for c in fills[:1] for p in c.get_paths())
            exp = Counter(sig_polygon(np.concatenate((l.right_vertices, np.flip(l.left_vertices, 0)))) for l in sc.lanelet_network.lanelets)
            V.prove("all lanelets are drawn", got == exp)
            rnd.render()
            V.reach("draw and render completed")
        finally:
            plt.close(fig)


    return shapes_are_occupancies


for _r in ROLES:
    _shapes(_r)
_shapes("all", "thorough")


@obligation("C19", "lanelet-and-problem-filters", functions=F,
            bounds="3 lanelets, 2 planning problems; draw_ids of the lanelet network: None / every subset; draw_ids of the planning problem set: None / every subset")
def filters(V):
    warnings.filterwarnings("ignore")
    sc = scenario(V, symbolic_times=False)
    pps = PlanningProblemSet([PlanningProblem(5, fx.init_state(0, 1.0, -20.0), GoalRegion([st.CustomState(time_step=Interval(0, 10), position=Rectangle(2.0, 2.0, np.array([50.0, -20.0])))])),
                              PlanningProblem(6, fx.init_state(0, 1.0, -14.0), GoalRegion([st.CustomState(time_step=Interval(0, 10), position=Circle(1.5, np.array([50.0, -14.0])))]))])
    mask = V.choice("lanelet_filter", 9)  # 0: None, 1..8: subsets of {1,2,3}
    ids = None if mask == 0 else [i + 1 for i in range(3) if (mask - 1) >> i & 1]
    pmask = V.choice("problem_filter", 5)
    pids = None if pmask == 0 else [5 + i for i in range(2) if (pmask - 1) >> i & 1]
    fig = plt.figure(figsize=(4, 3))
    try:
        rnd = MPRenderer(ax=fig.gca())
        shapes_only(rnd.draw_params)
        rnd.draw_params.lanelet_network.draw_ids = ids
        rnd.draw_params.planning_problem_set.draw_ids = pids
        sc.lanelet_network.draw(rnd)
        fills = [c for c in rnd.static_collections if type(c).__name__ == "PolyCollection"]
        got = Counter(sig_polygon(p.vertices) for c in fills[:1] for p in c.get_paths())
        sel = [l for l in sc.lanelet_network.lanelets if ids is None or l.lanelet_id in ids]
        exp = Counter(sig_polygon(np.concatenate((l.right_vertices, np.flip(l.left_vertices, 0)))) for l in sel)
        V.prove("exactly the selected lanelets are drawn", got == exp)
        n0 = len(rnd.obstacle_patches)
        pps.draw(rnd)
        goal = Counter(patch_signature(p) for p in rnd.obstacle_patches[n0:] if patch_signature(p)[0] != "other")
        want = Counter()
        for pid, p in pps.planning_problem_dict.items():
            if pids is None or pid in pids:
                want.update(shape_signatures(p.goal.state_list[0].position))
        V.prove("the goal regions of exactly the selected planning problems are drawn", goal == want)
        rnd.render()
        V.reach("draw and render completed")
    finally:
        plt.close(fig)


# ---- parameter propagation ---------------------------------------------------------------------------------------------------
def groups(root, path=()):
    out = [(path, root)]
    for k, v in vars(root).items():
        if isinstance(v, BaseParam):
            out += groups(v, path + (k,))
    return out


def declares(g, name):
    return name in {f.name for f in dataclasses.fields(g)}


SAMPLE = {"time_begin": "int", "time_end": "int", "antialiased": "bool", "zorder": "int", "linewidth": "int", "show_label": "bool", "opacity": "int",
          "draw_icon": "bool", "scale_factor": "int", "draw_shape": "bool"}


def _value(V, kind, name):
    return V.int(name, -5, 500) if kind == "int" else V.bool(name)


QUICK_NAMES = ["time_begin", "time_end", "antialiased", "zorder", "show_label", "draw_shape"]


def _propagation(tier):
    names = QUICK_NAMES if tier == "quick" else list(SAMPLE)
    n_rep = 2 if tier == "quick" else 4

    @obligation("C19", "parameter-propagation" + ("" if tier == "quick" else ".all-sampled-parameters"), tier=tier, functions=F,
                max_paths={"quick": 8000, "thorough": 60000},
                bounds=f"every parameter group G of MPDrawParams x parameters {names} with a symbolic value, after a symbolic earlier setting of the same "
                       f"parameter on a symbolically chosen group nested in G (possibly to the same value), and after one of up to {n_rep} direct sub-groups "
                       "of G was replaced by a fresh instance")
    def ob(V):
        propagation(V, names, n_rep)

    return ob


_propagation("quick")
_propagation("thorough")


def propagation(V, names, n_rep):
    params = MPDrawParams()
    gs = groups(params)
    gi = V.choice("group", len(gs))
    path, g = gs[gi]
    name = names[V.choice("parameter", len(names))]
    # a nested group may have been replaced by a fresh one after construction: it is nested all the same
    children = [(k, v) for k, v in vars(g).items() if isinstance(v, BaseParam)]
    rep = V.choice("replaced_child", min(len(children), n_rep) + 1)
    if rep > 0:
        k, v = children[(rep - 1) * max(1, len(children) // n_rep)]
        setattr(g, k, type(v)())
        gs = groups(params)
    nested = groups(g)
    declaring = [(p, n) for p, n in nested if declares(n, name)]
    if not declaring:
        return
    earlier = V.choice("earlier_setting_on", len(declaring) + 1)
    v1 = _value(V, SAMPLE[name], "earlier_value")
    v2 = _value(V, SAMPLE[name], "value")
    if earlier > 0:
        setattr(declaring[earlier - 1][1], name, v1)
    setattr(g, name, v2)
    ok = [V.eq(getattr(n, name), v2) for _, n in declaring]
    V.prove("every nested group that declares the parameter holds the new value", V.And(ok))
    outside = [n for p, n in gs if declares(n, name) and not any(n is m for _, m in nested)]
    fresh = MPDrawParams()
    fresh_vals = [getattr(n, name) for p, n in groups(fresh) if declares(n, name) and not (p[:len(path)] == path)]
    V.prove("groups outside the one that was set keep their values", [getattr(n, name) for n in outside] == fresh_vals)


@obligation("C19", "parameter-propagation.constructor", functions=F,
            bounds="MPDrawParams(time_begin=a, time_end=b, antialiased=c) with symbolic a, b, c: every nested group holds the values")
def propagation_ctor(V):
    a, b, c = V.int("time_begin", 0, 500), V.int("time_end", 0, 500), V.bool("antialiased")
    params = MPDrawParams(time_begin=a, time_end=b, antialiased=c)
    conds = []
    for _, g in groups(params):
        conds += [V.eq(g.time_begin, a), V.eq(g.time_end, b), V.eq(g.antialiased, c)]
    V.prove("the constructor propagates the time window and anti-aliasing to every nested group", V.And(conds))


# ---- totality ------------------------------------------------------------------------------------------------------------------
def rich_scenario(V):
    from commonroad.common.common_lanelet import LineMarking, StopLine

    sc = scenario(V, symbolic_times=False)
    net = sc.lanelet_network
    l1 = net.find_lanelet_by_id(1)
    l1.line_marking_left_vertices, l1.line_marking_right_vertices = LineMarking.DASHED, LineMarking.SOLID
    l1.stop_line = StopLine(np.array([50.0, -21.5]), np.array([50.0, -18.5]), LineMarking.SOLID)
    sc.add_objects(fx.light(11, (50.0, -17.0), (3, 2), 1), {1})
    sc.add_objects(fx.sign(10, {1}, (10.0, -17.0)), {1})
    sc.add_objects(traj_obstacle(37, 1, 15.0, 3, None, signals=True))
    sc.add_objects(Intersection(70, [IntersectionIncomingElement(71, {1}, {2}, set(), {3})], {2}))
    pps = PlanningProblemSet([PlanningProblem(5, fx.init_state(0, 1.0, -20.0, 0.3, 4.0),
                                              GoalRegion([st.CustomState(time_step=Interval(0, 10), position=Rectangle(2.0, 2.0, np.array([50.0, -20.0]))),
                                                          st.CustomState(time_step=Interval(0, 10))], {0: [3]}))])
    return sc, pps


def _total(name, flags, tier="quick"):
    @obligation("C19", f"total.{name}", tier=tier, functions=F, max_paths={"quick": 6000, "thorough": 60000},
                bounds=f"every combination of {', '.join(f for f, _ in flags)} x time_begin in 0..6 symbolic (forks where the renderer compares it), "
                       "time_end = time_begin + 3; obstacles of every role, signals, traffic light and sign, intersection, stop line, planning problem")
    def ob(V):
        warnings.filterwarnings("ignore")
        sc, pps = rich_scenario(V)
        tb = V.int("time_begin", 0, 6)
        fig = plt.figure(figsize=(4, 3))
        try:
            rnd = MPRenderer(ax=fig.gca())
            p = rnd.draw_params
            for fname, setter in flags:
                setter(p, V.flag(fname))
            p.time_begin = tb
            p.time_end = tb + 3
            sc.draw(rnd)
            pps.draw(rnd)
            rnd.render()
            V.reach("draw and render completed without an exception")
        finally:
            plt.close(fig)

    return ob


def _set(path):
    def f(p, v):
        *head, last = path.split(".")
        for h in head:
            p = getattr(p, h)
        setattr(p, last, v)

    return f


_total("dynamic-obstacle-flags", [(n, _set(n)) for n in ("dynamic_obstacle.draw_shape", "dynamic_obstacle.draw_icon", "dynamic_obstacle.draw_signals",
                                                        "dynamic_obstacle.draw_direction", "dynamic_obstacle.show_label", "dynamic_obstacle.draw_initial_state")])
_total("prediction-flags", [(n, _set(n)) for n in ("dynamic_obstacle.trajectory.draw_trajectory", "dynamic_obstacle.trajectory.draw_continuous",
                                                  "dynamic_obstacle.occupancy.draw_occupancies", "dynamic_obstacle.history.draw_history",
                                                  "phantom_obstacle.occupancy.draw_occupancies", "phantom_obstacle.draw_shape")])
_total("lanelet-network-flags", [(n, _set(n)) for n in ("lanelet_network.lanelet.show_label", "lanelet_network.lanelet.fill_lanelet", "lanelet_network.lanelet.draw_line_markings",
                                                       "lanelet_network.lanelet.draw_border_vertices", "lanelet_network.intersection.draw_intersections",
                                                       "lanelet_network.traffic_light.draw_traffic_lights", "lanelet_network.lanelet.unique_colors")])
_total("more-lanelet-flags", [(n, _set(n)) for n in ("lanelet_network.lanelet.draw_start_and_direction", "lanelet_network.lanelet.draw_stop_line",
                                                    "lanelet_network.lanelet.draw_center_bound", "lanelet_network.lanelet.draw_left_bound",
                                                    "lanelet_network.lanelet.colormap_tangent", "lanelet_network.intersection.show_label",
                                                    "lanelet_network.traffic_light.show_label", "lanelet_network.traffic_sign.draw_traffic_signs",
                                                    "lanelet_network.traffic_sign.show_label", "state.draw_arrow")], tier="thorough")

_M = "commonroad.visualization.mp_renderer:"
_D = "commonroad.visualization.draw_params:"
MUTANTS = [
    dict(name="obstacle-dropped-at-final-prediction-step", target=_M + "MPRenderer.draw_dynamic_obstacle", old="obj.prediction.final_time_step < time_begin",
         new="obj.prediction.final_time_step <= time_begin", only="shapes-are-the-occupancies.trajectory_obstacle"),
    dict(name="setbased-later-steps-cut-short", target=_M + "MPRenderer.draw_dynamic_obstacle", old="for time_step in range(time_begin_occ, time_end):",
         new="for time_step in range(time_begin_occ, time_end - 1):", only="shapes-are-the-occupancies.setbased_obstacle"),
    dict(name="phantom-drawn-at-window-end", target=_M + "MPRenderer.draw_phantom_obstacle", old="            occ = obj.occupancy_at_time(time_begin)\n            if occ is not None:\n                occ.draw(self, draw_params.occupancy)\n\n",
         new="            occ = obj.occupancy_at_time(time_end)\n            if occ is not None:\n                occ.draw(self, draw_params.occupancy)\n\n", only="shapes-are-the-occupancies.phantom"),
    dict(name="obstacle-starting-at-window-end-dropped", target=_M + "MPRenderer.draw_dynamic_obstacle", old=") or obj.initial_state.time_step > time_end:",
         new=") or obj.initial_state.time_step >= time_end:", only="shapes-are-the-occupancies.trajectory_obstacle"),
    dict(name="propagation-stops-at-non-declaring-group", target=_D + "BaseParam.__setattr__", old="                if isinstance(v, BaseParam):",
         new="                if isinstance(v, BaseParam) and name in {f.name for f in dataclasses.fields(v)}:", only="parameter-propagation"),
    dict(name="lanelet-filter-inverted", target=_M + "MPRenderer.draw_lanelet_network", old="lanelet.lanelet_id not in draw_lanlet_ids", new="lanelet.lanelet_id in draw_lanlet_ids",
         only="lanelet-and-problem-filters"),
    dict(name="problem-filter-ignores-ids", target=_M + "MPRenderer.draw_planning_problem_set", old="if draw_params.draw_ids is None or pp_id in draw_params.draw_ids:",
         new="if draw_params.draw_ids is None or len(draw_params.draw_ids) > 0:", only="lanelet-and-problem-filters"),
    dict(name="label-crash-without-state", target=_M + "MPRenderer.draw_dynamic_obstacle", old="        if show_label:\n            if state is not None:\n                position = state.position",
         new="        if show_label:\n            if True:\n                position = state.position", only="total.dynamic"),
]

"""C03 - Every written XML scenario file is valid against the 2020a schema."""
import warnings

import numpy as np

from commonroad.common.common_lanelet import LaneletType
from commonroad.common.util import Interval
from commonroad.planning.goal import GoalRegion
from commonroad.planning.planning_problem import PlanningProblem, PlanningProblemSet
from commonroad.scenario import state as st

from harness import fixtures as fx
from harness import xmlrt
from harness.xmlrt import install_shims  # noqa: F401
from symex import xsdlite
from symex.api import obligation

ASSUMPTIONS = [
    "the shipped XSD is parsed at run time into content models and simple types; the tree the real node builders produce is "
    "checked against it: child sequences by a content-model matcher (concrete per path), every numeric / boolean leaf by a "
    "solver query on its lexical form and value",
    "lexical forms: str(float) is positional iff x == 0 or 1e-4 <= |x| < 1e16, else exponent notation (not an xs:decimal); "
    "truncated / '.Nf' formatted numbers are positional; str(int) is a plain numeral; str(bool).lower() is true/false",
    "schema-expressible inputs: initial states at time step 0, trajectory / occupancy / signal-series time steps >= 1, at least "
    "one lanelet and one planning problem (added to skeletons that have none)",
]
OUTSIDE = ["lxml's validator (used in concrete replay only)", "character escaping of strings"]
STUBS = ["DOM passthrough tree", "number-formatting contract", "xsd-lite interpreter of the shipped schema"]
F = ["commonroad/common/writer/file_writer_xml.py:*XMLNode.*", "commonroad/common/writer/file_writer_xml.py:float_to_str",
     "commonroad/common/writer/file_writer_xml.py:XMLFileWriter._write_header",
     "commonroad/common/writer/file_writer_xml.py:XMLFileWriter._add_all_objects_from_scenario"]
SCHEMA = [None]


def schema():
    if SCHEMA[0] is None:
        SCHEMA[0] = xsdlite.Schema(xmlrt.XSD)
    return SCHEMA[0]


def complete(sc, pps):
    """the schema demands at least one lanelet and one planning problem"""
    if not sc.lanelet_network.lanelets:
        sc.add_objects(fx.straight_lanelet(900, 0.0, -50.0, lanelet_type={LaneletType.URBAN}))
    if not pps.planning_problem_dict:
        pps.add_planning_problem(PlanningProblem(999, fx.init_state(0, 1.0, -50.0), GoalRegion([st.CustomState(time_step=Interval(1, 5))])))


def group_of(path):
    """claims are grouped by the element kind under the root"""
    parts = path.split("/")
    return parts[2].split("[")[0] if len(parts) > 2 else "commonRoad"


def _mk(name, regime, tier="quick"):
    @obligation("C03", f"valid.{name}.{regime}", tier=tier, functions=F, max_paths={"quick": 3000, "thorough": 20000},
                bounds=f"skeleton '{name}', all numeric / boolean leaves symbolic ({regime} magnitudes), decimal precision in [1, 4, 12]")
    def ob(V):
        warnings.filterwarnings("ignore")
        xmlrt.REGIME[0] = regime
        d = xmlrt.precision(V)
        sc, pps, check, loc = xmlrt.build(V, name)
        complete(sc, pps)
        w = xmlrt.write(V, sc, pps, d, loc)
        if V.symbolic:
            root = w._root_node
        else:
            import xml.etree.ElementTree as ET

            root = ET.fromstring(w._dump())
        groups = {}
        for path, cond in schema().validate(root):
            groups.setdefault(group_of(path), []).append((path, cond))
        if V.symbolic:
            V.prove("the written document validates against the shipped XSD", V.And([c for items in groups.values() for _, c in items]))
        else:
            V.prove("the written document validates against the shipped XSD", xmlrt.schema_valid_concrete(w))
        for g, items in sorted(groups.items()):
            V.prove(f"<{g}> elements are schema-valid", V.And([c for _, c in items]))
        sc2, pps2 = xmlrt.read(V, w)
        V.reach("the library's own reader accepts the document")

    return ob


NOT_EXPRESSIBLE = ("dynamic.trajectory.PM", "dynamic.trajectory.KST")  # the schema's state type demands an orientation and has no hitchAngle
for _n in xmlrt.SKELETONS:
    if _n not in NOT_EXPRESSIBLE:
        _mk(_n, "normal")
for _n in ("lanelets", "static.rectangle", "static.circle", "static.polygon", "dynamic.trajectory.KS", "planning.rectangle",
           "signs-lights", "header-location", "dynamic.setbased-phantom-environment"):
    _mk(_n, "tiny")
_QUICK_TINY = ("lanelets", "static.rectangle", "static.circle", "static.polygon", "dynamic.trajectory.KS", "planning.rectangle",
               "signs-lights", "header-location", "dynamic.setbased-phantom-environment")
for _n in xmlrt.SKELETONS:
    if _n not in NOT_EXPRESSIBLE and _n not in _QUICK_TINY:
        _mk(_n, "tiny", "thorough")

_W = "commonroad.common.writer.file_writer_xml:"
MUTANTS = [
    dict(name="lanelet-right-bound-first", target=_W + "LaneletXMLNode.create_node",
         edits=[("        lanelet_node.append(left_boundary)\n", ""), ("        lanelet_node.append(right_boundary)\n", "        lanelet_node.append(right_boundary)\n        lanelet_node.append(left_boundary)\n")],
         only="valid.lanelets.normal"),
    dict(name="orientation-with-str", target=_W + "RectangleXMLNode.create_rectangle_node", old="float_to_str_exact(np.float64(rectangle.orientation))",
         new="str(np.float64(rectangle.orientation))", only="valid.static.rectangle.tiny"),
    dict(name="bool-not-lowercased", target=_W + "TrafficLightXMLNode.create_node", old="active_node.text = str(traffic_light.active).lower()",
         new="active_node.text = str(traffic_light.active)", only="valid.signs-lights.normal"),
    dict(name="occupancy-time-before-shape", target=_W + "OccupancyXMLNode.create_node",
         old="        occupancy_node.append(shape_node)\n", new="", only="valid.dynamic.setbased"),
    dict(name="point-y-before-x", target=_W + "Point.create_node", old="        point_node.append(x)\n        y = etree.Element(\"y\")",
         new="        y = etree.Element(\"y\")", only="valid.lanelets.normal"),
    dict(name="cycle-offset-zero-written", target=_W + "TrafficLightCycleXMLNode.create_node", old="traffic_light_cycle.time_offset > 0:",
         new="traffic_light_cycle.time_offset >= 0:", only="valid.signs-lights.normal"),
    dict(name="float_to_str-keeps-exponent", target=_W + "float_to_str", old='    if "e" in fstring:\n        return format(f, ".{}f".format(precision.decimals))',
         new='    if "e" in fstring and False:\n        return format(f, ".{}f".format(precision.decimals))', only="valid.dynamic.trajectory.KS.tiny"),
]

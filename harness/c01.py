"""C01 - XML write -> read reproduces scenario and planning problems."""
import warnings

from harness import xmlrt
from harness.xmlrt import install_shims  # noqa: F401 - picked up by the runner
from symex.api import obligation

ASSUMPTIONS = [
    "the writer's element tree is handed to the reader (DOM passthrough): serialisation and parsing preserve element order, "
    "names, attributes and text (contract of lxml / expat)",
    "str(float) denotes the float exactly and is positional iff x == 0 or 1e-4 <= |x| < 1e16 (CPython/numpy repr rule); "
    "float(text) returns the denoted value; truncation / '.Nf' rounding are exact on the decimal numeral",
    "ids, enumeration members and the element structure are concrete per skeleton; every numeric leaf (coordinates, "
    "orientations, velocities, shape parameters, time steps, durations, offsets) and every boolean is symbolic",
    "decimal precision in {1, 4, 12} (quick) / 1..12 (thorough); |coordinates| <= 1000",
]
OUTSIDE = ["lxml / expat", "IEEE rounding inside repr / float", "3-D geometry", "elements beyond the skeleton bounds (<= 3 lanelets, "
           "<= 2 trajectory states, <= 3 occupancies, <= 2 goal states)"]
STUBS = ["DOM passthrough tree", "number-formatting contract (SymDec / SymNumText / SymBoolText)", "shapely-lite"]
F = ["commonroad/common/writer/file_writer_xml.py:*XMLNode.*", "commonroad/common/writer/file_writer_xml.py:float_to_str",
     "commonroad/common/writer/file_writer_xml.py:XMLFileWriter._write_header", "commonroad/common/reader/file_reader_xml.py:*Factory.*",
     "commonroad/common/reader/file_reader_xml.py:XMLFileReader.open"]


def _mk(name, regime="normal", tier="quick", precisions=(1, 4, 12)):
    @obligation("C01", f"roundtrip.{name}.{regime}" + ("" if len(precisions) <= 3 else ".all-precisions"), tier=tier, functions=F,
                max_paths={"quick": 3000, "thorough": 20000},
                bounds=f"skeleton '{name}', all numeric / boolean leaves symbolic ({regime} magnitudes), decimal precision in {list(precisions)}")
    def ob(V):
        warnings.filterwarnings("ignore")
        xmlrt.REGIME[0] = regime
        d = xmlrt.precision(V, precisions)
        sc, pps, check, loc = xmlrt.build(V, name)
        w = xmlrt.write(V, sc, pps, d, loc)
        sc2, pps2 = xmlrt.read(V, w)
        check(V, sc2, pps2, d)

    return ob


for _n in xmlrt.SKELETONS:
    _mk(_n)
for _n in ("lanelets", "static.rectangle", "static.polygon", "dynamic.trajectory.KS", "dynamic.uncertain", "planning.rectangle", "signs-lights"):
    _mk(_n, "tiny")
for _n in ("lanelets", "static.rectangle", "dynamic.trajectory.KS", "planning.rectangle"):
    _mk(_n, "normal", "thorough", tuple(range(1, 13)))
_QUICK_TINY = ("lanelets", "static.rectangle", "static.polygon", "dynamic.trajectory.KS", "dynamic.uncertain", "planning.rectangle", "signs-lights")
for _n in xmlrt.SKELETONS:
    if _n not in _QUICK_TINY:
        _mk(_n, "tiny", "thorough")


@obligation("C01", "roundtrip.writer-among-other-writers", functions=F + ["commonroad/common/writer/file_writer_xml.py:XMLFileWriter.write_to_file",
                                                                          "commonroad/common/file_writer.py:CommonRoadFileWriter"],
            bounds="skeleton 'static.rectangle'; the file is written through the public write_to_file of a writer with decimal precision d after a second "
                   "writer with another precision was constructed; d and the other precision in {1, 4, 12}; tolerance 10^-d of the writing writer")
def roundtrip_among_writers(V):
    import os
    import shutil
    import tempfile

    from commonroad.common.file_writer import CommonRoadFileWriter
    from commonroad.common.writer.file_writer_interface import OverwriteExistingFile
    from commonroad.scenario.scenario import Tag

    warnings.filterwarnings("ignore")
    xmlrt.REGIME[0] = "normal"
    ds = (1, 4, 12)
    d = ds[V.choice("decimal_precision_index", 3)]
    other = ds[V.choice("other_writer_precision_index", 3)]
    sc, pps, check, loc = xmlrt.build(V, "static.rectangle")
    tmp = tempfile.mkdtemp(prefix="c01_")
    try:
        w = CommonRoadFileWriter(sc, pps, "author", "affiliation", "source", {Tag.URBAN}, loc, d)
        CommonRoadFileWriter(sc, pps, "someone", "else", "other", {Tag.HIGHWAY}, loc, other)
        w.write_to_file(os.path.join(tmp, "out.xml"), OverwriteExistingFile.ALWAYS)
        sc2, pps2 = xmlrt.read(V, w._file_writer)
        check(V, sc2, pps2, d)
    finally:
        shutil.rmtree(tmp, ignore_errors=True)


@obligation("C01", "float_to_str", functions=["commonroad/common/writer/file_writer_xml.py:float_to_str"],
            bounds="every finite float (both notations of its repr), every decimal precision 1..12: the text denotes a value within 10^-d")
def float_to_str(V):
    import commonroad.common.writer.file_writer_interface as wi
    import commonroad.common.writer.file_writer_xml as wr

    x = V.real("x", -1e15, 1e15)
    d = 1 + V.choice("decimals_minus_1", 12)
    wi.precision.decimals = d
    text = wr.float_to_str(np.float64(x) if not V.symbolic else x)
    got = text.__symfloat__() if V.symbolic else float(text)
    diff = got - x
    from fractions import Fraction

    tol = Fraction(1, 10 ** d)
    V.prove("|float(float_to_str(x)) - x| < 10^-d", V.And(diff < tol, -diff < tol))
    if not V.symbolic:
        V.prove("plain decimal notation", "e" not in text and "E" not in text and "n" not in text)


import numpy as np  # noqa: E402

_W = "commonroad.common.writer.file_writer_xml:"
_R = "commonroad.common.reader.file_reader_xml:"
MUTANTS = [
    dict(name="float_to_str-rounds-up", target=_W + "float_to_str", old='return f_list[0] + "." + f_list[1][: precision.decimals]',
         new='return format(f, ".{}f".format(max(precision.decimals - 1, 0)))', only="roundtrip.static.circle"),
    dict(name="point-y-written-as-x", target=_W + "Point.create_node", old="y.text = float_to_str(np.float64(self.y))", new="y.text = float_to_str(np.float64(self.x))",
         only="roundtrip.lanelets.normal"),
    dict(name="interval-end-swapped", target=_W + "create_interval_node_float", old="node_hi.text = float_to_str(np.float64(interval.end))",
         new="node_hi.text = float_to_str(np.float64(interval.start))", only="roundtrip.planning.rectangle.normal"),
    dict(name="adjacent-direction-inverted", target=_R + "LaneletFactory._adjacent_left", old='.get("drivingDir") == "same"', new='.get("drivingDir") != "same"',
         only="roundtrip.lanelets.normal"),
    dict(name="time-offset-dropped", target=_W + "TrafficLightCycleXMLNode.create_node", old="traffic_light_cycle.time_offset > 0:", new="traffic_light_cycle.time_offset > 1:",
         only="roundtrip.signs-lights.normal"),
    dict(name="occupancy-interval-as-exact", target=_R + "OccupancyFactory.create_from_xml_node", old='time = read_time(xml_node.find("time"))',
         new='time = read_time(xml_node.find("time"))\n        time = time if not isinstance(time, Interval) else time.start', only="roundtrip.dynamic.setbased"),
    dict(name="braking-lights-from-indicator", target=_W + "SignalStateXMLNode.create_signal_state_node", old="braking_lights.text = str(signal_state.braking_lights).lower()",
         new="braking_lights.text = str(signal_state.indicator_left).lower()", only="roundtrip.dynamic.signals"),
]

"""C02 - Protobuf write -> read is lossless.

The real message builders (XxxMessage.create_message) run on scenarios with symbolic leaves against stub message objects
generated from the repository's own DESCRIPTORs; the stub tree is handed to the real reader factories
(XxxFactory.create_from_message).  Every real-valued quantity read back must be *the very term* that was written (z3 proves
equality for all values), discrete content identical, optional data present iff it was present."""
import warnings

import numpy as np

import commonroad.common.reader.file_reader_protobuf as rp
import commonroad.common.writer.file_writer_protobuf as wp
from commonroad.common.util import Interval
from commonroad.planning.goal import GoalRegion
from commonroad.planning.planning_problem import PlanningProblem, PlanningProblemSet
from commonroad.scenario import state as st
from commonroad.scenario.lanelet import LaneletNetwork
from commonroad.scenario.obstacle import DynamicObstacle, ObstacleType, SignalState, StaticObstacle
from commonroad.scenario.scenario import Environment, Location, Tag, Time, TimeOfDay, Underground, Weather
from commonroad.scenario.traffic_sign import TrafficSign, TrafficSignElement, TrafficSignIDGermany
from commonroad.geometry.shape import Rectangle
from commonroad.prediction.prediction import TrajectoryPrediction
from commonroad.scenario.trajectory import Trajectory

from harness import fixtures as fx
from harness import xmlrt
from symex import pbstub
from symex.api import obligation

ASSUMPTIONS = [
    "message passthrough: the writer's message objects are stubs generated from the repository's DESCRIPTORs (proto2 semantics: "
    "presence, oneof, defaults, repeated order, scalar type checks, required fields); SerializeToString / ParseFromString of the "
    "real library are assumed to preserve every set field (doubles bit-exactly) - the concrete replay uses the real bytes",
    "ids, enumeration members and the element structure are concrete per skeleton; every numeric leaf and boolean is symbolic; "
    "real-valued quantities must read back as the identical term (exact equality for every value)",
    "|coordinates| <= 1000, both magnitude regimes where the skeleton is shared with C01",
]
OUTSIDE = ["the protobuf wire format (google.protobuf C++/upb implementation)", "3-D geometry", "enumeration members missing in the .proto files",
           "elements beyond the skeleton bounds (<= 3 lanelets, <= 2 trajectory states, <= 3 occupancies, <= 2 goal states)"]
STUBS = ["protobuf message stubs generated from the *_pb2 DESCRIPTORs (symex/pbstub.py), validated against the real implementation on "
         "concrete messages by the obligation 'stub-vs-real'", "shapely-lite"]
F = ["commonroad/common/writer/file_writer_protobuf.py:*Message.create_message", "commonroad/common/writer/file_writer_protobuf.py:ProtobufFileWriter._write_header",
     "commonroad/common/writer/file_writer_protobuf.py:ProtobufFileWriter._add_all_objects_from_scenario",
     "commonroad/common/reader/file_reader_protobuf.py:*Factory.create_from_message"]


def install_shims():
    pbstub.install(wp)
    pbstub.install(rp)


def write(V, sc, pps, loc=None, tags=None):
    w = wp.ProtobufFileWriter(sc, pps, "author", "affiliation", "source", {Tag.URBAN} if tags is None else tags, loc, 4)
    w._commonroad_msg = wp.commonroad_pb2.CommonRoad()
    w._write_header()
    w._add_all_objects_from_scenario()
    w._add_all_planning_problems_from_planning_problem_set()
    return w


def read(V, w):
    warnings.filterwarnings("ignore")
    data = w._commonroad_msg.SerializeToString()  # stub: required-field check + deep copy; concrete: the real bytes
    if V.symbolic:
        m = rp.commonroad_pb2.CommonRoad()
        m.ParseFromString(data)
        return rp.CommonRoadFactory.create_from_message(m, False)
    return rp.ProtobufFileReader(data).open()


def _mk(name, regime="normal", tier="quick"):
    @obligation("C02", f"roundtrip.{name}.{regime}", tier=tier, functions=F, max_paths={"quick": 3000, "thorough": 20000},
                bounds=f"skeleton '{name}', all numeric / boolean leaves symbolic ({regime} magnitudes); exact equality of every real")
    def ob(V):
        warnings.filterwarnings("ignore")
        xmlrt.REGIME[0] = regime
        sc, pps, check, loc = xmlrt.build(V, name)
        w = write(V, sc, pps, loc)
        sc2, pps2 = read(V, w)
        check(V, sc2, pps2, None)

    return ob


def _expressible(name):
    """state attributes without a field in the shipped .proto (the hitch angle of KST states) are outside the property"""
    from commonroad.scenario_definition.protobuf_format.generated_scripts import obstacle_pb2

    return not (name.endswith(".KST") and "hitch_angle" not in obstacle_pb2.State.DESCRIPTOR.fields_by_name)


for _n in xmlrt.SKELETONS:
    if _expressible(_n):
        _mk(_n)
for _n in ("static.rectangle", "dynamic.trajectory.KS", "planning.rectangle"):
    _mk(_n, "tiny")
for _n in xmlrt.SKELETONS:
    if _expressible(_n) and _n not in ("static.rectangle", "dynamic.trajectory.KS", "planning.rectangle"):
        _mk(_n, "tiny", "thorough")


# ---- clauses of C02 that go beyond C01 -------------------------------------------------------------------------
@obligation("C02", "optional.sign-first-occurrence-virtual", functions=F,
            bounds="one traffic sign with symbolic virtual flag, 0..2 first occurrences, symbolic position")
def sign_optional(V):
    warnings.filterwarnings("ignore")
    sc = xmlrt.base_scenario()
    net = LaneletNetwork()
    net.add_lanelet(fx.straight_lanelet(1, traffic_signs={10}))
    net.add_lanelet(fx.straight_lanelet(2, 0.0, 5.0, traffic_signs={10}))
    n_first = V.choice("n_first_occurrences", 3)
    first = set([1, 2][:n_first])
    virt = V.bool("virtual")
    has_pos = True  # the property quantifies over signs with explicit positions
    pos = np.array([V.real("x", -1000, 1000), V.real("y", -1000, 1000)])
    sign = TrafficSign(10, [TrafficSignElement(TrafficSignIDGermany.MAX_SPEED, ["30"])], first, pos, virt)
    net.add_traffic_sign(sign, set())
    sc.add_objects(net)
    sc2, _ = read(V, write(V, sc, PlanningProblemSet()))
    s2 = sc2.lanelet_network.find_traffic_sign_by_id(10)
    V.prove("the sign is read back", s2 is not None)
    if s2 is None:
        return
    V.prove("first occurrences survive", set(s2.first_occurrence) == first)
    V.prove("virtual flag survives", V.eq(s2.virtual, virt))
    if has_pos:
        V.prove("position survives exactly", s2.position is not None and V.And(V.eq(s2.position[0], pos[0]), V.eq(s2.position[1], pos[1])))
    else:
        V.prove("absent position stays absent", s2.position is None)


@obligation("C02", "optional.environment-location", functions=F,
            bounds="location with / without environment, environment time present or absent, geo transformation present or absent; symbolic gps")
def location_optional(V):
    warnings.filterwarnings("ignore")
    from commonroad.scenario.scenario import GeoTransformation

    sc = xmlrt.base_scenario()
    sc.add_objects(fx.straight_lanelet(1))
    has_env = V.choice("has_environment", 2) == 1
    has_time = V.choice("has_time", 2) == 1
    has_geo = V.choice("has_geo_transformation", 2) == 1
    env = Environment(Time(13, 45) if has_time else None, TimeOfDay.NIGHT, Weather.LIGHT_RAIN, Underground.WET) if has_env else None
    geo = GeoTransformation("+proj=utm +zone=32", V.real("gx", -1000, 1000), V.real("gy", -1000, 1000), V.real("rot", -3, 3),
                            V.real("scale", 1e-9, 100)) if has_geo else None
    lat, lon = V.real("lat", -90, 90), V.real("lon", -180, 180)
    loc = Location(V.int("geo_name_id", -999, 10 ** 7), lat, lon, geo, env)
    sc2, _ = read(V, write(V, sc, PlanningProblemSet(), loc))
    l2 = sc2.location
    V.prove("location read back", l2 is not None)
    if l2 is None:
        return
    V.prove("gps and geo name id survive exactly", V.And(V.eq(l2.gps_latitude, lat), V.eq(l2.gps_longitude, lon), V.eq(l2.geo_name_id, loc.geo_name_id)))
    V.prove("environment present iff it was present", (l2.environment is not None) == has_env)
    if has_env and l2.environment is not None:
        e2 = l2.environment
        V.prove("environment time present iff it was present", (e2.time is not None) == has_time)
        V.prove("environment content", e2.time_of_day is TimeOfDay.NIGHT and e2.weather is Weather.LIGHT_RAIN and e2.underground is Underground.WET and
                (not has_time or (e2.time is not None and e2.time.hours == 13 and e2.time.minutes == 45)))
    V.prove("geo transformation present iff it was present", (l2.geo_transformation is not None) == has_geo)
    if has_geo and l2.geo_transformation is not None:
        g2 = l2.geo_transformation
        V.prove("geo transformation survives exactly", V.And(g2.geo_reference == geo.geo_reference, V.eq(g2.x_translation, geo.x_translation),
                                                           V.eq(g2.y_translation, geo.y_translation), V.eq(g2.z_rotation, geo.z_rotation),
                                                           V.eq(g2.scaling, geo.scaling)))


@obligation("C02", "optional.default-constructed-obstacles", functions=F,
            bounds="static and dynamic obstacle built with the constructor defaults (no signal states, no lanelet assignments, no prediction / "
                   "a trajectory prediction), symbolic initial state; signal states partially populated")
def default_objects(V):
    warnings.filterwarnings("ignore")
    sc = xmlrt.base_scenario()
    sc.add_objects(fx.straight_lanelet(1))
    x, y, th = V.real("x", -1000, 1000), V.real("y", -1000, 1000), V.real("theta", -6.28, 6.28)
    s0 = st.InitialState(time_step=0, position=np.array([x, y]), orientation=th, velocity=V.real("v", -50, 50), acceleration=0.0, yaw_rate=0.0, slip_angle=0.0)
    sc.add_objects(StaticObstacle(20, ObstacleType.PARKED_VEHICLE, Rectangle(4.0, 2.0), s0))
    with_pred = V.choice("with_prediction", 2) == 1
    pred = None
    if with_pred:
        traj = Trajectory(1, [st.KSState(time_step=1, position=np.array([x + 1.0, y]), orientation=th, velocity=1.0, steering_angle=0.0)])
        pred = TrajectoryPrediction(traj, Rectangle(4.0, 2.0))
    sig_kind = V.choice("signal_state_kind", 3)  # none / only horn / braking lights + indicator
    horn, brake = V.bool("horn"), V.bool("braking_lights")
    sig = None if sig_kind == 0 else SignalState(time_step=0, horn=horn) if sig_kind == 1 else SignalState(time_step=0, braking_lights=brake, indicator_left=True)
    dyn = DynamicObstacle(21, ObstacleType.CAR, Rectangle(4.0, 2.0), st.InitialState(time_step=0, position=np.array([y, x]), orientation=th, velocity=1.0,
                                                                                   acceleration=0.0, yaw_rate=0.0, slip_angle=0.0), pred,
                          initial_signal_state=sig)
    sc.add_objects(dyn)
    sc2, _ = read(V, write(V, sc, PlanningProblemSet()))
    o1, o2 = sc2.obstacle_by_id(20), sc2.obstacle_by_id(21)
    V.prove("both obstacles read back", isinstance(o1, StaticObstacle) and isinstance(o2, DynamicObstacle))
    if not (isinstance(o1, StaticObstacle) and isinstance(o2, DynamicObstacle)):
        return
    c = xmlrt.Cmp(V, None)
    c.state("static initial state", o1.initial_state, s0, initial=True)
    c.add("static: absent signal states stay absent", o1.initial_signal_state is None and not o1.signal_series)
    c.prove("default-constructed static obstacle survives")
    c.state("dynamic initial state", o2.initial_state, dyn.initial_state, initial=True)
    c.add("prediction present iff it was present", (o2.prediction is not None) == with_pred)
    if with_pred and o2.prediction is not None:
        c.add("trajectory length", len(o2.prediction.trajectory.state_list) == 1)
        c.state("trajectory state", o2.prediction.trajectory.state_list[0], pred.trajectory.state_list[0])
    c.prove("default-constructed dynamic obstacle survives")
    c.signal("initial signal state", o2.initial_signal_state, sig)
    c.prove("signal state: populated attributes survive, absent ones stay absent")


@obligation("C02", "optional.goal-lanelets", functions=F,
            bounds="planning problem with two goal states; goal lanelets on none / the first / the second / both; symbolic time intervals")
def goal_lanelets(V):
    warnings.filterwarnings("ignore")
    sc = xmlrt.base_scenario()
    sc.add_objects([fx.straight_lanelet(1), fx.straight_lanelet(2, 0.0, 5.0)])
    which = V.choice("goal_lanelets_on", 4)
    table = {0: None, 1: {0: [1]}, 2: {1: [2]}, 3: {0: [1, 2], 1: [2]}}[which]
    t0, t1 = V.int("t_lo", 1, 50), V.int("t_hi", 51, 100)
    goal = GoalRegion([st.CustomState(time_step=Interval(t0, t1)), st.CustomState(time_step=Interval(t0, t1), velocity=Interval(V.real("v_lo", 0, 10), V.real("v_hi", 10, 20)))],
                      None if table is None else {k: list(v) for k, v in table.items()})
    pps = PlanningProblemSet([PlanningProblem(5, fx.init_state(0, 1.0, 0.0), goal)])
    _, pps2 = read(V, write(V, sc, pps))
    p2 = pps2.planning_problem_dict.get(5)
    V.prove("planning problem read back", p2 is not None and len(p2.goal.state_list) == 2)
    if p2 is None or len(p2.goal.state_list) != 2:
        return
    got = p2.goal.lanelets_of_goal_position
    want = table
    V.prove("goal lanelets survive, absent ones stay absent",
            (got is None and want is None) or (got is not None and want is not None and {k: list(v) for k, v in got.items() if v} == want))
    c = xmlrt.Cmp(V, None)
    for i in range(2):
        c.state(f"goal state {i}", p2.goal.state_list[i], goal.state_list[i])
    c.prove("goal states survive exactly")


@obligation("C02", "values.unwrapped-orientation", functions=F,
            bounds="planning-problem initial state and a time-only goal: exact orientation anywhere in [-50, 50] (an accumulated, unwrapped yaw), velocity "
                   "in [-1e6, 1e6], position in [-1e6, 1e6]^2: every value is read back as the identical term")
def unwrapped_orientation(V):
    warnings.filterwarnings("ignore")
    sc = xmlrt.base_scenario()
    sc.add_objects(fx.straight_lanelet(1))
    th, v = V.real("orientation", -50, 50), V.real("velocity", -1e6, 1e6)
    x, y = V.real("x", -1e6, 1e6), V.real("y", -1e6, 1e6)
    init = st.InitialState(time_step=0, position=np.array([x, y]), orientation=th, velocity=v, acceleration=0.0, yaw_rate=0.0, slip_angle=0.0)
    pps = PlanningProblemSet([PlanningProblem(5, init, GoalRegion([st.CustomState(time_step=Interval(1, 5))]))])
    _, pps2 = read(V, write(V, sc, pps))
    p2 = pps2.planning_problem_dict.get(5)
    V.prove("planning problem read back", p2 is not None)
    if p2 is None:
        return
    s2 = p2.initial_state
    V.prove("orientation, velocity and position are read back exactly", V.And(V.eq(s2.orientation, th), V.eq(s2.velocity, v), V.eq(s2.position[0], x),
                                                                             V.eq(s2.position[1], y)))


@obligation("C02", "stub-vs-real", functions=["symex/pbstub.py (validation of the stub, not of the library)"],
            bounds="concrete scenarios (every skeleton at fixed leaf values): the stub message tree equals, field by field, the real message the same "
                   "writer code builds with google.protobuf, and the reader produces equal objects from both")
def stub_vs_real(V):
    """validation of the message stubs against the real implementation (Serval-style: same inputs through both)"""
    if not V.symbolic:
        return
    import importlib

    warnings.filterwarnings("ignore")
    from symex.api import ConcV

    names = [n for n in xmlrt.SKELETONS if _expressible(n)]
    name = names[V.choice("skeleton", len(names))]

    class Mid(ConcV):
        def _get(self, n):
            return None

    mid = ConcV({})
    mid.real = lambda n, lo=None, hi=None: 0.37 if lo is None or lo <= 0.37 <= hi else (lo + hi) / 2  # noqa: E731
    mid.int = lambda n, lo=None, hi=None: lo if lo is not None else 1  # noqa: E731
    mid.bool = lambda n: True  # noqa: E731
    mid.flag = lambda n: True  # noqa: E731
    mid.choice = lambda n, k: 0  # noqa: E731
    xmlrt.REGIME[0] = "normal"
    sc, pps, _check, loc = xmlrt.build(mid, name)
    stub_msg = write(mid, sc, pps, loc)._commonroad_msg
    real_wp = importlib.import_module("commonroad.common.writer.file_writer_protobuf")
    saved = {k: v for k, v in vars(real_wp).items() if isinstance(v, pbstub.StubModule)}
    for k, v in saved.items():
        setattr(real_wp, k, v._real)
    try:
        real_msg = write(mid, sc, pps, loc)._commonroad_msg
    finally:
        for k, v in saved.items():
            setattr(real_wp, k, v)
    V.prove("stub and real message trees have the same fields and values", pbstub.dump(stub_msg) == pbstub.dump(real_msg))
    V.prove("the stub reports the same initialisation state", stub_msg.IsInitialized() == real_msg.IsInitialized())
    back = pbstub.to_real(stub_msg, type(real_msg))
    V.prove("the stub tree converts to a real message with identical bytes", back.SerializeToString(deterministic=True) == real_msg.SerializeToString(deterministic=True))


_W = "commonroad.common.writer.file_writer_protobuf:"
_R = "commonroad.common.reader.file_reader_protobuf:"
MUTANTS = [
    dict(name="point-y-from-x", target=_W + "PointMessage.create_message", old="point_msg.y = point[1]", new="point_msg.y = point[0]", only="roundtrip.lanelets"),
    dict(name="interval-end-from-start", target=_W + "FloatIntervalMessage.create_message", old="float_interval_msg.end = interval.end",
         new="float_interval_msg.end = interval.start", only="roundtrip.planning.rectangle.normal"),
    dict(name="horn-not-written", target=_W + "SignalStateMessage.create_message", old="            if hasattr(signal_state, attr):",
         new='            if hasattr(signal_state, attr) and attr != "horn":', only="roundtrip.dynamic.signals"),
    dict(name="virtual-inverted-on-read", target=_R + "TrafficSignFactory.create_from_message", old="traffic_sign.virtual = traffic_sign_msg.virtual",
         new="traffic_sign.virtual = not traffic_sign_msg.virtual", only="optional.sign"),
    dict(name="light-offset-dropped", target=_R + "TrafficLightFactory.create_from_message", old='HasField("time_offset")', new='HasField("time_offset") and False',
         only="roundtrip.signs-lights"),
    dict(name="zero-orientation-not-written", target=_W + "RectangleMessage.create_message", old="rectangle_msg.orientation = rectangle.orientation",
         new="rectangle_msg.orientation = rectangle.orientation + 1e-12", only="roundtrip.static.rectangle.normal"),
]

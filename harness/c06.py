"""C06 - Spatial lookups agree with the geometry they index."""
import copy
import math
import warnings

import numpy as np

from commonroad.geometry.shape import Circle, Polygon, Rectangle, ShapeGroup
from commonroad.scenario.lanelet import Lanelet, LaneletNetwork
from commonroad.scenario.obstacle import ObstacleType, StaticObstacle

from harness import fixtures as fx
from symex import shapely_lite
from symex.api import obligation

TWO_PI = 2.0 * math.pi
ASSUMPTIONS = [
    "lanelet networks: five concrete layouts (disjoint, edge-adjacent, overlapping, two coincident lanelets, one curved 3-vertex lanelet) x four "
    "construction routes (from a list, lanelet by lanelet, deep copy, pickle state round trip); query points / shapes symbolic",
    "shapely is replaced by shapely-lite (closed-set predicates; Point.buffer(r) is the exact disc); the oracle is written "
    "independently: per-segment quadrilaterals for lanelets, separating axes for convex/convex intersection",
    "exported geometry of a circle: must contain every point within 0.99 r, must not contain any point beyond r "
    "(shapely approximates discs by 64-gons)",
]
OUTSIDE = ["shapely / GEOS internals and STRtree internals",
           "non-convex query polygons"]
STUBS = ["shapely-lite", "STRtree-lite"]
F = ["commonroad/scenario/lanelet.py:LaneletNetwork.find_lanelet_by_position", "commonroad/scenario/lanelet.py:LaneletNetwork.find_lanelet_by_shape",
     "commonroad/scenario/lanelet.py:LaneletNetwork._create_strtree", "commonroad/scenario/lanelet.py:LaneletNetwork.add_lanelet",
     "commonroad/scenario/lanelet.py:LaneletNetwork.create_from_lanelet_list", "commonroad/scenario/lanelet.py:LaneletNetwork.__deepcopy__",
     "commonroad/scenario/lanelet.py:LaneletNetwork.__getstate__", "commonroad/scenario/lanelet.py:LaneletNetwork.__setstate__",
     "commonroad/scenario/lanelet.py:Lanelet.contains_points", "commonroad/scenario/lanelet.py:Lanelet.get_obstacles",
     "commonroad/scenario/lanelet.py:LaneletNetwork.map_obstacles_to_lanelets", "commonroad/scenario/lanelet.py:LaneletNetwork.filter_obstacles_in_network",
     "commonroad/geometry/shape.py:*.contains_point", "commonroad/geometry/shape.py:*.shapely_object"]
B = 1000.0


def exported_contains(V, geom, p):
    """p in the planar geometry a shape exports (real shapely concretely, shapely-lite symbolically)"""
    if V.symbolic:
        return geom.intersects(shapely_lite.Point(p[0], p[1]))
    import shapely.geometry

    return geom.intersects(shapely.geometry.Point(p[0], p[1]))


@obligation("C06", "shape.circle", functions=F, bounds="all radii, centres, query points")
def shape_circle(V):
    c = (V.real("cx", -B, B), V.real("cy", -B, B))
    r = V.real("radius", 0.01, 100.0)
    p = (V.real("px", -B, B), V.real("py", -B, B))
    ci = Circle(r, np.array([c[0], c[1]]))
    d2 = (p[0] - c[0]) * (p[0] - c[0]) + (p[1] - c[1]) * (p[1] - c[1])
    V.prove("contains_point <=> point in the disc of radius r", V.iff(bool(ci.contains_point(np.array([p[0], p[1]]))), d2 <= r * r))
    got = bool(exported_contains(V, ci.shapely_object, p))
    V.prove("exported geometry contains the disc of radius 0.99 r", V.Implies(d2 <= 0.9801 * r * r, got))
    V.prove("exported geometry stays inside the disc of radius r", V.Implies(got, d2 <= r * r * 1.000001))


def _box(V, p, c, l, w, th):
    co, si = V.cos(th), V.sin(th)
    dx, dy = p[0] - c[0], p[1] - c[1]
    u, v = co * dx + si * dy, -si * dx + co * dy
    return V.And(2 * u <= l, -2 * u <= l, 2 * v <= w, -2 * v <= w)


@obligation("C06", "shape.rectangle", functions=F, bounds="all lengths, widths, poses, query points")
def shape_rect(V):
    c = (V.real("cx", -B, B), V.real("cy", -B, B))
    l, w, th = V.real("length", 0.01, 100.0), V.real("width", 0.01, 100.0), V.real("theta", -TWO_PI, TWO_PI)
    p = (V.real("px", -B, B), V.real("py", -B, B))
    r = Rectangle(l, w, np.array([c[0], c[1]]), th)
    spec = _box(V, p, c, l, w, th)
    V.prove("contains_point <=> point in the l x w box at the pose", V.iff(bool(r.contains_point(np.array([p[0], p[1]]))), spec))
    V.prove("exported geometry denotes the same box", V.iff(bool(exported_contains(V, r.shapely_object, p)), spec))


QPOLY = [([[0.0, 0.0], [4.0, 0.0], [1.0, 3.0]], [[0, 1, 2]]),
         ([[-2.0, -1.0], [0.0, 0.5], [2.0, -1.0], [0.0, 4.0]], [[0, 1, 3], [1, 2, 3]])]


def in_convex(V, pts, p):
    parts = []
    for i in range(len(pts)):
        a, b = pts[i], pts[(i + 1) % len(pts)]
        parts.append((b[0] - a[0]) * (p[1] - a[1]) - (b[1] - a[1]) * (p[0] - a[0]) >= 0)
    return V.And(parts)


@obligation("C06", "shape.polygon-group", functions=F, bounds="polygons from a concrete family (triangle, non-convex arrow) at a symbolic "
                                                                 "offset; shape group of polygon + circle")
def shape_polygon(V):
    k = V.choice("poly", len(QPOLY))
    off = (V.real("ox", -B, B), V.real("oy", -B, B))
    pts = [(x + off[0], y + off[1]) for x, y in QPOLY[k][0]]
    p = (V.real("px", -B, B), V.real("py", -B, B))
    poly = Polygon(np.array([[x, y] for x, y in pts]))
    spec = V.Or([in_convex(V, [pts[i] for i in piece], p) for piece in QPOLY[k][1]])
    V.prove("polygon: contains_point <=> point in the vertex ring", V.iff(bool(poly.contains_point(np.array([p[0], p[1]]))), spec))
    V.prove("polygon: exported geometry denotes the vertex ring", V.iff(bool(exported_contains(V, poly.shapely_object, p)), spec))
    r = V.real("radius", 0.01, 10.0)
    ci = Circle(r, np.array([off[0] + 10.0, off[1]]))
    g = ShapeGroup([poly, ci])
    dx, dy = p[0] - off[0] - 10.0, p[1] - off[1]
    V.prove("group: contains_point <=> point in the union", V.iff(bool(g.contains_point(np.array([p[0], p[1]]))), V.Or(spec, dx * dx + dy * dy <= r * r)))


# ---- networks -------------------------------------------------------------------------------------------
def lanelet_from(lid, right, left):
    center = [[(a[0] + b[0]) / 2, (a[1] + b[1]) / 2] for a, b in zip(right, left)]
    return Lanelet(np.array(left), np.array(center), np.array(right), lid)


LAYOUTS = {
    "disjoint": {1: ([[0.0, 0.0], [10.0, 0.0]], [[0.0, 3.0], [10.0, 3.0]]), 2: ([[20.0, 5.0], [30.0, 5.0]], [[20.0, 8.0], [30.0, 8.0]])},
    "adjacent": {1: ([[0.0, 0.0], [10.0, 0.0]], [[0.0, 3.0], [10.0, 3.0]]), 2: ([[10.0, 0.0], [20.0, 1.0]], [[10.0, 3.0], [20.0, 4.0]]),
                 3: ([[0.0, 3.0], [10.0, 3.0]], [[0.0, 6.0], [10.0, 6.0]])},
    "overlapping": {1: ([[0.0, 0.0], [10.0, 0.0]], [[0.0, 3.0], [10.0, 3.0]]), 2: ([[5.0, -1.0], [12.0, 6.0]], [[2.0, 2.0], [9.0, 9.0]])},
    "coincident": {1: ([[0.0, 0.0], [10.0, 0.0]], [[0.0, 3.0], [10.0, 3.0]]), 2: ([[0.0, 0.0], [10.0, 0.0]], [[0.0, 3.0], [10.0, 3.0]]),
                   3: ([[10.0, 0.0], [20.0, 0.0]], [[10.0, 3.0], [20.0, 3.0]])},
    "curved": {1: ([[0.0, 0.0], [6.0, 0.0], [10.0, 4.0]], [[0.0, 3.0], [5.0, 3.0], [8.0, 6.0]]),
               2: ([[10.0, 4.0], [14.0, 8.0]], [[8.0, 6.0], [12.0, 10.0]])},
}
LAYOUT_NAMES = list(LAYOUTS)
ROUTES = ["from_list", "incremental", "deepcopy", "state_roundtrip", "xml_file", "protobuf_file"]


def build_network(layout, route):
    las = [lanelet_from(lid, r, l) for lid, (r, l) in LAYOUTS[layout].items()]
    if route == "from_list":
        return LaneletNetwork.create_from_lanelet_list(las)
    net = LaneletNetwork()
    for la in las:
        net.add_lanelet(la)
    if route == "deepcopy":
        return copy.deepcopy(net)
    if route == "state_roundtrip":
        state = net.__getstate__()
        new = LaneletNetwork.__new__(LaneletNetwork)
        new.__setstate__(state)
        return new
    if route in ("xml_file", "protobuf_file"):
        # the network as the file readers build it (the layouts' coordinates have at most one decimal, so the XML writer's
        # truncation to 4 decimals does not move them)
        import commonroad.common.reader.file_reader_protobuf as rp
        import commonroad.common.reader.file_reader_xml as rx
        from commonroad.common.file_writer import CommonRoadFileWriter
        from commonroad.common.util import FileFormat
        from commonroad.planning.planning_problem import PlanningProblemSet
        from commonroad.scenario.scenario import Scenario, ScenarioID, Tag

        sc = Scenario(0.1, ScenarioID.from_benchmark_id("DEU_Muc-1_2_T-1", "2020a"))
        sc.add_objects(net)
        xml = route == "xml_file"
        w = CommonRoadFileWriter(sc, PlanningProblemSet(), "a", "b", "c", {Tag.URBAN}, None, 4, FileFormat.XML if xml else FileFormat.PROTOBUF)._file_writer
        if not xml:
            w._commonroad_msg = type(w._commonroad_msg)()
        w._write_header()
        w._add_all_objects_from_scenario()
        data = w._dump() if xml else w._commonroad_msg.SerializeToString()
        sc2, _ = (rx.XMLFileReader(data) if xml else rp.ProtobufFileReader(data)).open()
        return sc2.lanelet_network
    return net


def quads(layout, lid):
    """the lanelet polygon as per-segment quadrilaterals (counter-clockwise), independent of the library's polygon"""
    right, left = LAYOUTS[layout][lid]
    return [[right[i], right[i + 1], left[i + 1], left[i]] for i in range(len(right) - 1)]


def in_lanelet(V, layout, lid, p):
    return V.Or([in_convex(V, q, p) for q in quads(layout, lid)])


def _mk_position(layout):
    @obligation("C06", f"position.{layout}", functions=F, bounds=f"layout '{layout}', all six construction routes (from a list, lanelet by lanelet, deep copy, pickle state, read from an XML file, read from a protobuf file), symbolic query point")
    def ob(V):
        warnings.filterwarnings("ignore")
        net = build_network(layout, ROUTES[V.choice("route", len(ROUTES))])
        p = (V.real("px", -20, 40), V.real("py", -20, 30))
        got = net.find_lanelet_by_position([np.array([p[0], p[1]])])[0]
        for lid in LAYOUTS[layout]:
            V.prove(f"lanelet {lid} reported <=> its polygon contains the point", V.iff(lid in got, in_lanelet(V, layout, lid, p)))
        V.prove("only lanelets of the network are reported, each once", V.And(set(got) <= set(LAYOUTS[layout]), len(set(got)) == len(got)))
        la = net.find_lanelet_by_id(1)
        V.prove("Lanelet.contains_points agrees", V.iff(bool(la.contains_points(np.array([[p[0], p[1]], [p[0], p[1]]]))[0]), in_lanelet(V, layout, 1, p)))

    return ob


for _l in LAYOUT_NAMES:
    _mk_position(_l)


def convex_intersect(V, A, B_):
    """closed convex polygons (ccw vertex lists) intersect <=> no edge of either is a separating axis"""
    def separated(P, Q):
        seps = []
        for i in range(len(P)):
            a, b = P[i], P[(i + 1) % len(P)]
            # all of Q strictly to the right of edge a->b
            seps.append(V.And([(b[0] - a[0]) * (q[1] - a[1]) - (b[1] - a[1]) * (q[0] - a[0]) < 0 for q in Q]))
        return V.Or(seps)

    return V.Not(V.Or(separated(A, B_), separated(B_, A)))


def seg_dist2_le(V, a, b, c, r):
    ux, uy = b[0] - a[0], b[1] - a[1]
    t = (c[0] - a[0]) * ux + (c[1] - a[1]) * uy
    l2 = ux * ux + uy * uy
    da = (c[0] - a[0]) ** 2 + (c[1] - a[1]) ** 2
    db = (c[0] - b[0]) ** 2 + (c[1] - b[1]) ** 2
    cr = ux * (c[1] - a[1]) - uy * (c[0] - a[0])
    return V.Or(V.And(t <= 0, da <= r * r), V.And(t >= l2, db <= r * r), V.And(t >= 0, t <= l2, cr * cr <= r * r * l2))


def disc_meets_convex(V, P, c, r):
    return V.Or(in_convex(V, P, c), V.Or([seg_dist2_le(V, P[i], P[(i + 1) % len(P)], c, r) for i in range(len(P))]))


def _mk_shape_lookup(layout):
    @obligation("C06", f"by-shape.{layout}", functions=F, max_paths={"quick": 4000, "thorough": 20000},
                bounds=f"layout '{layout}', construction routes from_list / deepcopy, query = axis-parallel 3x2 rectangle or circle "
                       "(symbolic radius) at a symbolic position")
    def ob(V):
        warnings.filterwarnings("ignore")
        net = build_network(layout, ("from_list", "deepcopy")[V.choice("route", 2)])
        c = (V.real("qx", -20, 40), V.real("qy", -20, 30))
        if V.choice("query_kind", 2) == 0:
            q = Rectangle(3.0, 2.0, np.array([c[0], c[1]]))
            Q = [(c[0] - 1.5, c[1] - 1.0), (c[0] + 1.5, c[1] - 1.0), (c[0] + 1.5, c[1] + 1.0), (c[0] - 1.5, c[1] + 1.0)]
            truth = lambda lid: V.Or([convex_intersect(V, qd, Q) for qd in quads(layout, lid)])
        else:
            r = V.real("radius", 0.1, 5.0)
            q = Circle(r, np.array([c[0], c[1]]))
            truth = lambda lid: V.Or([disc_meets_convex(V, qd, c, r) for qd in quads(layout, lid)])
        got = net.find_lanelet_by_shape(q)
        for lid in LAYOUTS[layout]:
            if isinstance(q, Rectangle):
                V.prove(f"rectangle query: lanelet {lid} reported <=> its polygon intersects the shape", V.iff(lid in got, truth(lid)))
            else:
                V.prove(f"circle query: lanelet {lid} reported => its polygon intersects the disc", V.Implies(lid in got, truth(lid)))
                V.prove(f"circle query: lanelet {lid} intersects the disc => reported", V.Implies(truth(lid), lid in got))

    return ob


for _l in LAYOUT_NAMES:
    _mk_shape_lookup(_l)


@obligation("C06", "obstacles.adjacent", functions=F, max_paths={"quick": 4000, "thorough": 20000},
            bounds="layout 'adjacent'; one static obstacle (rectangle 3x2 or circle, symbolic position): get_obstacles, "
                   "map_obstacles_to_lanelets and filter_obstacles_in_network against the geometric truth")
def obstacles(V):
    warnings.filterwarnings("ignore")
    layout = "adjacent"
    net = build_network(layout, "from_list")
    c = (V.real("ox", -10, 30), V.real("oy", -10, 15))
    if V.choice("shape_kind", 2) == 0:
        shape = Rectangle(3.0, 2.0)
        Q = [(c[0] - 1.5, c[1] - 1.0), (c[0] + 1.5, c[1] - 1.0), (c[0] + 1.5, c[1] + 1.0), (c[0] - 1.5, c[1] + 1.0)]
        truth = {lid: V.Or([convex_intersect(V, qd, Q) for qd in quads(layout, lid)]) for lid in LAYOUTS[layout]}
    else:
        r = V.real("radius", 0.1, 5.0)
        shape = Circle(r)
        truth = {lid: V.Or([disc_meets_convex(V, qd, c, r) for qd in quads(layout, lid)]) for lid in LAYOUTS[layout]}
    o = StaticObstacle(50, ObstacleType.CAR, shape, fx.init_state(0, c[0], c[1], 0.0))
    mapping = net.map_obstacles_to_lanelets([o])
    kind = "rectangle" if isinstance(shape, Rectangle) else "circle"
    for lid in LAYOUTS[layout]:
        la = net.find_lanelet_by_id(lid)
        a, b = o in la.get_obstacles([o]), o in mapping.get(lid, [])
        V.prove(f"{kind} obstacle: listed by get_obstacles / map_obstacles_to_lanelets for lanelet {lid} => intersects it",
                V.And(V.Implies(a, truth[lid]), V.Implies(b, truth[lid])))
        V.prove(f"{kind} obstacle: intersects lanelet {lid} => listed by get_obstacles / map_obstacles_to_lanelets",
                V.And(V.Implies(truth[lid], a), V.Implies(truth[lid], b)))
    kept = o in net.filter_obstacles_in_network([o])
    V.prove(f"{kind} obstacle: kept by filter_obstacles_in_network => intersects some lanelet", V.Implies(kept, V.Or(list(truth.values()))))
    V.prove(f"{kind} obstacle: intersects some lanelet => kept by filter_obstacles_in_network", V.Implies(V.Or(list(truth.values())), kept))

_N = "commonroad.scenario.lanelet:LaneletNetwork."
MUTANTS = [
    dict(name="setstate-no-index-rebuild", target=_N + "__setstate__", old="        self._create_strtree()", new="        self._strtee = None", only="position"),
    dict(name="deepcopy-shares-index-map", target=_N + "__deepcopy__", old="        result._create_strtree()\n", new="        result._strtee = self._strtee\n", only="position"),
    dict(name="by-shape-no-refilter", target=_N + "find_lanelet_by_shape",
         old="            if lanelet_shapely_polygon.intersects(shape.shapely_object):\n                res.append", new="            if True:\n                res.append", only="by-shape"),
    dict(name="polygon-bbox-strict", target="commonroad.geometry.shape:Polygon.contains_point",
         old="all(np.less_equal(self._min, point))", new="all(np.less(self._min, point))", only="position"),
    dict(name="circle-contains-open", target="commonroad.geometry.shape:Circle.contains_point", old="np.greater_equal(", new="np.greater(", only="shape.circle"),
    dict(name="get-obstacles-first-shape-only", target="commonroad.scenario.lanelet:Lanelet.get_obstacles",
         old="            o_shape = o.occupancy_at_time(time_step).shape", new="            o_shape = o.obstacle_shape", only="obstacles"),
    dict(name="add-lanelet-stale-index", target=_N + "add_lanelet", old="            if rtree:\n                self._create_strtree()",
         new="            if rtree and len(self._lanelets) < 2:\n                self._create_strtree()", only="position"),
]

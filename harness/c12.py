"""C12 - Equality and hashing of scenario elements follow their contract.

Per class: two instances are built through the public constructors from symbolic scalar attributes; the solver decides
reflexivity, equality with a deep copy, symmetry, equality of attribute-wise equal instances (also with id collections
inserted in a different order), inequality under every single-attribute perturbation, hash consistency and hash totality."""
import copy
import warnings

import numpy as np

from commonroad.common.common_lanelet import LaneletType, LineMarking, RoadUser, StopLine
from commonroad.common.util import AngleInterval, Interval, Time
from commonroad.geometry.shape import Circle, Polygon, Rectangle, ShapeGroup
from commonroad.planning.goal import GoalRegion
from commonroad.planning.planning_problem import PlanningProblem, PlanningProblemSet
from commonroad.prediction.prediction import Occupancy, SetBasedPrediction, TrajectoryPrediction
from commonroad.scenario import state as st
from commonroad.scenario.area import Area, AreaBorder, AreaType
from commonroad.scenario.intersection import Intersection, IntersectionIncomingElement
from commonroad.scenario.lanelet import Lanelet, LaneletNetwork
from commonroad.scenario.obstacle import (DynamicObstacle, EnvironmentObstacle, ObstacleType, PhantomObstacle,
                                          StaticObstacle)
from commonroad.scenario.scenario import (Environment, GeoTransformation, Location, Scenario, ScenarioID, TimeOfDay,
                                          Underground, Weather)
from commonroad.scenario.traffic_light import (TrafficLight, TrafficLightCycle, TrafficLightCycleElement,
                                               TrafficLightDirection, TrafficLightState)
from commonroad.scenario.traffic_sign import TrafficSign, TrafficSignElement, TrafficSignIDGermany
from commonroad.scenario.trajectory import Trajectory

from harness import fixtures as fx
from symex import hashkeys
from symex.api import obligation

ASSUMPTIONS = [
    "discrete attributes are varied one at a time (the others at a default), real and int attributes are all symbolic",
    "real attributes in [-1000, 1000]; a perturbation changes one attribute by more than 1e-10 (reals) or to another value "
    "(ints, booleans, enumeration members, id sets)",
    "np.array2string(np.around(a, 10), precision=10) is idealised as an injective rendering of the rounded entries (numpy "
    "switches to scientific notation when an array's dynamic range exceeds 1e3 and then loses digits; that regime is "
    "outside the encoding)",
    "hash(x) is compared structurally (same tuple shape, equal leaves); collisions are not a property",
]
OUTSIDE = ["MetaInformationState (json.dumps)", "numpy's scientific-notation regime of array2string", "hash collisions"]
STUBS = ["hash / frozenset shadowed by structural keys", "np.array2string as injective key", "shapely-lite"]
F = ["commonroad/**:__eq__", "commonroad/**:__hash__"]
R = ("real", -1000.0, 1000.0)
POS = ("real", 0.1, 1000.0)
ANG = ("real", -3.0, 3.0)
IDS = [{8, 16}, {1, 3}, {4}]  # 8 and 16 collide in a small hash table: iteration order = insertion order
COLS = [TrafficLightState.RED, TrafficLightState.GREEN, TrafficLightState.YELLOW]


def ids(v, rev):
    """the id collection `v`, inserted in the given or in the reversed order"""
    seq = sorted(v, reverse=bool(rev))
    s = set()
    for x in seq:
        s.add(x)
    return s


def idlist(v, rev):
    return sorted(v, reverse=bool(rev))


SPECS = {}


def spec(name, attrs, default=None):
    def deco(build):
        SPECS[name] = dict(name=name, attrs=attrs, build=build, default=default)
        return build

    return deco


def arr(*xs):
    return np.array(list(xs))


@spec("Interval", dict(start=("real", -1000.0, 0.0), end=("real", 0.0, 1000.0)))
def _(a, rev):
    return Interval(a["start"], a["end"])


@spec("AngleInterval", dict(start=("real", -3.0, 0.0), end=("real", 0.0, 3.0)))
def _(a, rev):
    return AngleInterval(a["start"], a["end"])


@spec("Time", dict(hours=("int", 0, 24), minutes=("int", 0, 60), day=("int", 1, 31)))
def _(a, rev):
    return Time(a["hours"], a["minutes"], a["day"], 6, 2020)


@spec("Rectangle", dict(length=POS, width=POS, cx=R, cy=R, orientation=ANG), default=lambda: Rectangle(4.0, 2.0))
def _(a, rev):
    return Rectangle(a["length"], a["width"], arr(a["cx"], a["cy"]), a["orientation"])


@spec("Circle", dict(radius=POS, cx=R, cy=R), default=lambda: Circle(2.0))
def _(a, rev):
    return Circle(a["radius"], arr(a["cx"], a["cy"]))


@spec("Polygon", dict(ox=R, oy=R, top=("real", 1.0, 5.0)))
def _(a, rev):
    return Polygon(np.array([[a["ox"], a["oy"]], [a["ox"] + 1.0, a["oy"] + a["top"]], [a["ox"] + 4.0, a["oy"]]]))


@spec("ShapeGroup", dict(length=POS, radius=POS, count=("enum", [2, 1, 3])))
def _(a, rev):
    return ShapeGroup([Rectangle(a["length"], 2.0), Circle(a["radius"]), Circle(1.0)][:a["count"]])


def _state_kw(a):
    return dict(time_step=a["time_step"], position=arr(a["x"], a["y"]), orientation=a["orientation"], velocity=a["velocity"])


STATE_ATTRS = dict(time_step=("int", 0, 100), x=R, y=R, orientation=ANG, velocity=R)


@spec("InitialState", STATE_ATTRS)
def _(a, rev):
    return st.InitialState(acceleration=0.0, yaw_rate=0.0, slip_angle=0.0, **_state_kw(a))


@spec("KSState", STATE_ATTRS)
def _(a, rev):
    return st.KSState(steering_angle=0.1, **_state_kw(a))


@spec("PMState", dict(time_step=("int", 0, 100), x=R, y=R, velocity=R, velocity_y=R))
def _(a, rev):
    return st.PMState(time_step=a["time_step"], position=arr(a["x"], a["y"]), velocity=a["velocity"], velocity_y=a["velocity_y"])


@spec("CustomState", STATE_ATTRS)
def _(a, rev):
    return st.CustomState(**_state_kw(a))


@spec("SignalState", dict(time_step=("enum", [0, 1, 5]), horn=("bool",), braking_lights=("bool",)))
def _(a, rev):
    return st.SignalState(time_step=a["time_step"], horn=a["horn"], braking_lights=a["braking_lights"], indicator_left=False)


@spec("Trajectory", dict(x0=R, x1=R, orientation=ANG, count=("enum", [2, 1, 3])))
def _(a, rev):
    return Trajectory(3, [st.KSState(time_step=3, position=arr(a["x0"], 1.0), orientation=a["orientation"], velocity=1.0, steering_angle=0.0),
                          st.KSState(time_step=4, position=arr(a["x1"], 1.0), orientation=0.0, velocity=1.0, steering_angle=0.0),
                          st.KSState(time_step=5, position=arr(7.0, 1.0), orientation=0.0, velocity=1.0, steering_angle=0.0)][:a["count"]])


@spec("Occupancy", dict(time_step=("int", 0, 100), cx=R, radius=POS))
def _(a, rev):
    return Occupancy(a["time_step"], Circle(a["radius"], arr(a["cx"], 0.0)))


@spec("SetBasedPrediction", dict(cx=R, radius=POS, count=("enum", [2, 1, 3])))
def _(a, rev):
    return SetBasedPrediction(1, [Occupancy(1, Circle(a["radius"], arr(a["cx"], 0.0))), Occupancy(2, Rectangle(2.0, 1.0)),
                                  Occupancy(3, Rectangle(3.0, 1.0))][:a["count"]])


def _traj(x):
    return Trajectory(1, [st.KSState(time_step=1, position=arr(x, 0.0), orientation=0.0, velocity=1.0, steering_angle=0.0)])


@spec("TrajectoryPrediction", dict(x=R, length=POS, assignment=("ids", IDS)), default=lambda: TrajectoryPrediction(_traj(0.0), Rectangle(4.0, 2.0)))
def _(a, rev):
    return TrajectoryPrediction(_traj(a["x"]), Rectangle(a["length"], 2.0), {1: ids(a["assignment"], rev)}, {1: ids(a["assignment"], not rev)})


OBST_ATTRS = dict(x=R, orientation=ANG, type=("enum", [ObstacleType.CAR, ObstacleType.TRUCK, ObstacleType.BUS]), length=POS,
                  center_lanelets=("ids", IDS), shape_lanelets=("ids", IDS))


@spec("StaticObstacle", OBST_ATTRS, default=lambda: StaticObstacle(3, ObstacleType.CAR, Rectangle(4.0, 2.0), fx.init_state()))
def _(a, rev):
    return StaticObstacle(3, a["type"], Rectangle(a["length"], 2.0), fx.init_state(0, a["x"], 0.0, a["orientation"]),
                          ids(a["center_lanelets"], rev), ids(a["shape_lanelets"], rev), None, [])


@spec("DynamicObstacle", dict(OBST_ATTRS, px=R),
      default=lambda: DynamicObstacle(3, ObstacleType.CAR, Rectangle(4.0, 2.0), fx.init_state()))
def _(a, rev):
    return DynamicObstacle(3, a["type"], Rectangle(a["length"], 2.0), fx.init_state(0, a["x"], 0.0, a["orientation"]),
                           TrajectoryPrediction(_traj(a["px"]), Rectangle(a["length"], 2.0)),
                           ids(a["center_lanelets"], rev), ids(a["shape_lanelets"], rev), None, [], None, [])


@spec("PhantomObstacle", dict(cx=R, radius=POS), default=lambda: PhantomObstacle(4))
def _(a, rev):
    return PhantomObstacle(4, SetBasedPrediction(0, [Occupancy(0, Circle(a["radius"], arr(a["cx"], 0.0)))]))


@spec("EnvironmentObstacle", dict(cx=R, radius=POS, type=("enum", [ObstacleType.BUILDING, ObstacleType.PILLAR])))
def _(a, rev):
    return EnvironmentObstacle(5, a["type"], Circle(a["radius"], arr(a["cx"], 0.0)))


@spec("StopLine", dict(sx=R, ey=R, marking=("enum", [LineMarking.SOLID, LineMarking.DASHED]), sign_ref=("ids", IDS), light_ref=("ids", IDS)),
      default=lambda: StopLine(arr(0.0, 0.0), arr(0.0, 3.0), LineMarking.SOLID))
def _(a, rev):
    return StopLine(arr(a["sx"], 0.0), arr(1.0, a["ey"]), a["marking"], ids(a["sign_ref"], rev), ids(a["light_ref"], rev))


LANELET_ATTRS = dict(lx=R, cy=R, ry=R, marking_left=("enum", [LineMarking.SOLID, LineMarking.DASHED]),
                     predecessor=("ids", IDS), successor=("ids", IDS), adj_left=("enum", [None, 7, 8]),
                     lanelet_type=("enum", [{LaneletType.URBAN}, {LaneletType.HIGHWAY}, {LaneletType.URBAN, LaneletType.BUS_LANE}]),
                     user_one_way=("enum", [{RoadUser.CAR}, {RoadUser.BUS}, {RoadUser.CAR, RoadUser.BUS}]),
                     user_bidirectional=("enum", [set(), {RoadUser.BICYCLE}]),
                     traffic_signs=("ids", IDS), traffic_lights=("ids", IDS))


@spec("Lanelet", LANELET_ATTRS, default=lambda: fx.straight_lanelet(1))
def _(a, rev):
    left = np.array([[a["lx"], 2.0], [a["lx"] + 10.0, 2.0]])
    center = np.array([[0.0, a["cy"]], [10.0, a["cy"]]])
    right = np.array([[0.0, a["ry"]], [10.0, a["ry"]]])
    kw = {}
    if a["adj_left"] is not None:
        kw = dict(adjacent_left=a["adj_left"], adjacent_left_same_direction=True)
    return Lanelet(left, center, right, 1, idlist(a["predecessor"], rev), idlist(a["successor"], rev),
                   line_marking_left_vertices=a["marking_left"], lanelet_type=set(a["lanelet_type"]), user_one_way=set(a["user_one_way"]),
                   user_bidirectional=set(a["user_bidirectional"]), traffic_signs=ids(a["traffic_signs"], rev),
                   traffic_lights=ids(a["traffic_lights"], rev), **kw)


@spec("TrafficSignElement", dict(kind=("enum", [TrafficSignIDGermany.MAX_SPEED, TrafficSignIDGermany.MIN_SPEED]),
                                 value=("enum", [["30"], ["50"], []])),
      default=lambda: TrafficSignElement(TrafficSignIDGermany.STOP))
def _(a, rev):
    return TrafficSignElement(a["kind"], list(a["value"]))


@spec("TrafficSign", dict(px=R, py=R, virtual=("bool",), first=("ids", IDS), value=("enum", [["30"], ["50"]]), count=("enum", [1, 2])))
def _(a, rev):
    els = [TrafficSignElement(TrafficSignIDGermany.MAX_SPEED, list(a["value"])), TrafficSignElement(TrafficSignIDGermany.STOP)][:a["count"]]
    return TrafficSign(9, els[::-1] if rev else els, ids(a["first"], rev), arr(a["px"], a["py"]), a["virtual"])


@spec("TrafficLightCycleElement", dict(state=("enum", COLS), duration=("int", 1, 100)))
def _(a, rev):
    return TrafficLightCycleElement(a["state"], a["duration"])


@spec("TrafficLightCycle", dict(d0=("int", 1, 100), d1=("int", 1, 100), offset=("int", 0, 100), active=("bool",), count=("enum", [2, 1, 3])),
      default=lambda: TrafficLightCycle())
def _(a, rev):
    return TrafficLightCycle([TrafficLightCycleElement(COLS[0], a["d0"]), TrafficLightCycleElement(COLS[1], a["d1"]),
                              TrafficLightCycleElement(COLS[2], 7)][:a["count"]], a["offset"], a["active"])


@spec("TrafficLight", dict(px=R, py=R, d0=("int", 1, 100), direction=("enum", [TrafficLightDirection.ALL, TrafficLightDirection.LEFT]),
                           active=("bool",)),
      default=lambda: TrafficLight(8, arr(0.0, 0.0)))
def _(a, rev):
    return TrafficLight(8, arr(a["px"], a["py"]), TrafficLightCycle([TrafficLightCycleElement(COLS[0], a["d0"])], 0), [COLS[0]], a["active"],
                        a["direction"])


INC_ATTRS = dict(incoming=("ids", IDS), right=("ids", IDS), straight=("ids", IDS), left=("ids", IDS), left_of=("enum", [None, 31, 32]))


@spec("IntersectionIncomingElement", INC_ATTRS, default=lambda: IntersectionIncomingElement(30))
def _(a, rev):
    return IntersectionIncomingElement(30, ids(a["incoming"], rev), ids(a["right"], rev), ids(a["straight"], rev), ids(a["left"], rev), a["left_of"])


@spec("Intersection", dict(incoming=("ids", IDS), crossings=("ids", IDS), count=("enum", [2, 1, 3])),
      default=lambda: Intersection(40, [IntersectionIncomingElement(30, {1})]))
def _(a, rev):
    incs = [IntersectionIncomingElement(30, ids(a["incoming"], rev), {5}), IntersectionIncomingElement(31, {9}, {5}),
            IntersectionIncomingElement(32, {10}, {5})][:a["count"]]
    return Intersection(40, incs[::-1] if rev else incs, ids(a["crossings"], rev))


@spec("AreaBorder", dict(x=R, adjacent=("ids", IDS), marking=("enum", [LineMarking.SOLID, LineMarking.DASHED])),
      default=lambda: AreaBorder(1, np.array([[0.0, 0.0], [1.0, 0.0]])))
def _(a, rev):
    return AreaBorder(1, np.array([[a["x"], 0.0], [a["x"] + 5.0, 1.0]]), idlist(a["adjacent"], False), a["marking"])


@spec("Area", dict(x=R, types=("enum", [{AreaType.BUS_STOP}, {AreaType.PARKING}]), count=("enum", [1, 2])), default=lambda: Area(2))
def _(a, rev):
    return Area(2, [AreaBorder(1, np.array([[a["x"], 0.0], [a["x"] + 5.0, 1.0]]), [1]),
                    AreaBorder(2, np.array([[0.0, 0.0], [5.0, 1.0]]), [2])][:a["count"]], set(a["types"]))


@spec("LaneletNetwork", dict(ly=R, px=R, successor=("ids", IDS), count=("enum", [2, 1])), default=lambda: LaneletNetwork())
def _(a, rev):
    net = LaneletNetwork()
    las = [Lanelet(np.array([[0.0, a["ly"]], [10.0, a["ly"]]]), np.array([[0.0, 0.0], [10.0, 0.0]]), np.array([[0.0, -2.0], [10.0, -2.0]]), 1,
                   successor=idlist(a["successor"], rev)), fx.straight_lanelet(2, 10.0, 0.0)][:a["count"]]
    for la in (las[::-1] if rev else las):
        net.add_lanelet(la, rtree=False)
    net.add_traffic_sign(fx.sign(9, pos=(a["px"], 1.0)), set())
    return net


def _goal(a):
    return GoalRegion([st.CustomState(time_step=Interval(a["t_lo"], a["t_lo"] + 5), position=Rectangle(a["length"], 2.0),
                                      orientation=AngleInterval(-1.0, a["o_hi"])),
                       st.CustomState(time_step=Interval(3, 4))][:a["states"]], {0: idlist(a["lanelets"], False)})


GOAL_ATTRS = dict(t_lo=("int", 0, 100), length=POS, o_hi=("real", 0.0, 3.0), lanelets=("ids", IDS), states=("enum", [1, 2]))


@spec("GoalRegion", GOAL_ATTRS, default=lambda: GoalRegion([st.CustomState(time_step=Interval(0, 1))]))
def _(a, rev):
    return _goal(a)


@spec("PlanningProblem", dict(GOAL_ATTRS, x=R, velocity=R))
def _(a, rev):
    return PlanningProblem(1, fx.init_state(0, a["x"], 0.0, 0.0, a["velocity"]), _goal(a))


@spec("PlanningProblemSet", dict(GOAL_ATTRS, x=R, count=("enum", [1, 2])), default=lambda: PlanningProblemSet())
def _(a, rev):
    pps = [PlanningProblem(1, fx.init_state(0, a["x"], 0.0, 0.0, 1.0), _goal(a)),
           PlanningProblem(2, fx.init_state(0, 5.0, 0.0, 0.0, 1.0), GoalRegion([st.CustomState(time_step=Interval(0, 9))]))][:a["count"]]
    return PlanningProblemSet(pps[::-1] if rev else pps)


@spec("ScenarioID", dict(cooperative=("bool",), map_id=("int", 1, 1000), configuration_id=("int", 1, 1000),
                         behavior=("enum", ["T", "S", "I"]), prediction_id=("int", 1, 1000), map_name=("enum", ["Muc", "Lohmar"])),
      default=lambda: ScenarioID())
def _(a, rev):
    return ScenarioID(a["cooperative"], "DEU", a["map_name"], a["map_id"], a["configuration_id"], a["behavior"], a["prediction_id"])


@spec("GeoTransformation", dict(x=R, y=R, rot=ANG, scaling=POS), default=lambda: GeoTransformation())
def _(a, rev):
    return GeoTransformation("+proj=utm", a["x"], a["y"], a["rot"], a["scaling"])


@spec("Environment", dict(hours=("int", 0, 24), weather=("enum", [Weather.CLEAR, Weather.HEAVY_RAIN]), tod=("enum", [TimeOfDay.NOON, TimeOfDay.NIGHT])),
      default=lambda: Environment())
def _(a, rev):
    return Environment(Time(a["hours"], 30), a["tod"], a["weather"], Underground.ICE)


@spec("Location", dict(geo=("int", 1, 10 ** 6), lat=R, lon=R, x=R, hours=("int", 0, 24)), default=lambda: Location())
def _(a, rev):
    return Location(a["geo"], a["lat"], a["lon"], GeoTransformation("+proj=utm", a["x"], 0.0, 0.0, 1.0), Environment(Time(a["hours"], 30)))


@spec("Scenario", dict(ly=R, ox=R, author=("enum", ["A", "B"]), obstacles=("enum", [1, 2])), default=lambda: Scenario(0.1))
def _(a, rev):
    sc = Scenario(0.1, ScenarioID(), author=a["author"], tags=set(), affiliation="x", source="y", location=Location())
    sc.add_objects(Lanelet(np.array([[0.0, a["ly"]], [10.0, a["ly"]]]), np.array([[0.0, 0.0], [10.0, 0.0]]), np.array([[0.0, -2.0], [10.0, -2.0]]), 1))
    sc.add_objects(fx.static_obstacle(3, a["ox"], 0.0))
    if a["obstacles"] == 2:
        sc.add_objects(fx.static_obstacle(4, 9.0, 0.0))
    return sc


# ------------------------------------------------------------------------------------------------
def values(V, sp, tag, vary=None):
    """symbolic attribute values; discrete attributes (enum / id set / bool) are varied one at a time: the attribute named
    by `vary` ranges over all its alternatives, the others take their first alternative"""
    out = {}
    for n, k in sp["attrs"].items():
        if k[0] == "real":
            out[n] = V.real(f"{tag}.{n}", k[1], k[2])
        elif k[0] == "int":
            out[n] = V.int(f"{tag}.{n}", k[1], k[2])
        elif k[0] == "bool":
            out[n] = V.flag(f"{tag}.{n}") if vary in (n, "*") else False
        elif k[0] in ("enum", "ids"):
            out[n] = k[1][V.choice(f"{tag}.{n}", len(k[1]))] if vary in (n, "*") else k[1][0]
    return out


def discrete(sp):
    return [n for n, k in sp["attrs"].items() if k[0] in ("enum", "ids", "bool")]


def perturbed(V, sp, a, attr):
    k = sp["attrs"][attr]
    b = dict(a)
    if k[0] == "real":
        nb = V.real(f"b.{attr}", k[1], k[2])
        V.assume(V.Or(nb - a[attr] > 1e-10, a[attr] - nb > 1e-10))
        b[attr] = nb
    elif k[0] == "int":
        nb = V.int(f"b.{attr}", k[1], k[2])
        V.assume(V.Not(V.eq(nb, a[attr])))
        b[attr] = nb
    elif k[0] == "bool":
        b[attr] = not a[attr]
    else:
        others = [x for x in k[1] if x is not a[attr]]
        b[attr] = others[V.choice(f"b.{attr}", len(others))]
    return b


def hash_of(V, x):
    if V.symbolic:
        return hashkeys.sym_hash(x)
    return hash(x)


def hash_equal(V, h1, h2):
    if V.symbolic:
        return hashkeys.key_equal(h1, h2)
    return h1 == h2


def _mk_same(name):
    sp = SPECS[name]

    @obligation("C12", f"{name}.equal", functions=[f"{name}.__eq__", f"{name}.__hash__"],
                bounds="all attribute values; second instance built from the same values with id collections inserted in reverse order")
    def ob(V):
        warnings.filterwarnings("ignore")
        dn = discrete(sp)
        a = values(V, sp, "a", dn[V.choice("varied_discrete_attribute", len(dn))] if dn else None)
        x, y = sp["build"](a, False), sp["build"](a, True)
        V.prove("x == x", bool(x == x))
        V.prove("x == deepcopy(x)", bool(x == copy.deepcopy(x)))
        V.prove("same attribute values => equal (both directions)", V.And(bool(x == y), bool(y == x)))
        V.prove("!= is the negation of ==", V.And(not bool(x != y), not bool(x != x)))
        try:
            hx, hy = hash_of(V, x), hash_of(V, y)
        except TypeError as e:
            V.fail("hash() raises", str(e))
            return
        V.prove("equal objects have equal hashes", hash_equal(V, hx, hy))

    return ob


def _mk_diff(name, attr):
    sp = SPECS[name]

    @obligation("C12", f"{name}.differs.{attr}", functions=[f"{name}.__eq__"],
                bounds=f"all attribute values; '{attr}' perturbed (reals by more than 1e-10), all other attributes identical")
    def ob(V):
        warnings.filterwarnings("ignore")
        a = values(V, sp, "a", attr)
        b = perturbed(V, sp, a, attr)
        x, y = sp["build"](a, False), sp["build"](b, False)
        V.prove(f"instances differing in '{attr}' are unequal (both directions)", V.And(not bool(x == y), not bool(y == x)))

    return ob


def _mk_default(name):
    sp = SPECS[name]

    @obligation("C12", f"{name}.hash-default-args", functions=[f"{name}.__hash__"], bounds="instance built with default optional arguments")
    def ob(V):
        warnings.filterwarnings("ignore")
        x = sp["default"]()
        try:
            h1, h2 = hash_of(V, x), hash_of(V, copy.deepcopy(x))
        except TypeError as e:
            V.fail("hash() raises for default optional arguments", str(e))
            return
        V.prove("hash is stable across a deep copy", hash_equal(V, h1, h2))
        V.prove("default-argument instance equals its deep copy", bool(x == copy.deepcopy(x)))

    return ob


def _mk_mutated(name):
    sp = SPECS[name]

    @obligation("C12", f"{name}.hash-after-setters", functions=[f"{name}.__eq__", f"{name}.__hash__"],
                bounds="an instance is hashed and compared (so that anything memoised exists), then every attribute with a public property "
                       "setter is re-assigned (in alphabetical or reverse order, hashing after every assignment) to the values of a second instance built from other attribute values; if the two then compare "
                       "equal their hashes agree")
    def ob(V):
        warnings.filterwarnings("ignore")
        dn = discrete(sp)
        vary = dn[V.choice("varied_discrete_attribute", len(dn))] if dn else None
        x, y = sp["build"](values(V, sp, "a", None), False), sp["build"](values(V, sp, "b", vary), False)
        try:
            hash_of(V, x), bool(x == x), bool(x == y)
        except TypeError:
            return
        assigned = []
        names = [n for n in sorted(dir(type(x))) if not n.startswith("_") and isinstance(getattr(type(x), n, None), property)
                 and getattr(type(x), n).fset is not None]
        if len(names) > 1 and V.choice("setters_in_reverse_order", 2):
            names.reverse()
        for n in names:
            try:
                setattr(x, n, copy.deepcopy(getattr(y, n)))
                assigned.append(n)
                hash_of(V, x)  # hashed again after every assignment: a memo refreshed by one setter and missed by the next goes stale
            except Exception:  # noqa: BLE001 - a setter may reject re-assignment (ids are immutable); then the instances stay unequal
                pass
        if assigned and bool(x == y) and bool(y == x):
            V.reach("re-assigned instance equals the second instance")
            V.prove("equal after re-assignment through the setters => equal hashes (" + ", ".join(assigned) + ")", hash_equal(V, hash_of(V, x), hash_of(V, y)))

    return ob


for _n, _sp in SPECS.items():
    _mk_same(_n)
    for _a in _sp["attrs"]:
        _mk_diff(_n, _a)
    if _sp["default"] is not None:
        _mk_default(_n)
    if not _n.endswith("State"):  # the state dataclasses have plain fields, no property setters
        _mk_mutated(_n)


MUTANTS = [
    dict(name="interval-eq-ignores-end", target="commonroad.common.util:Interval.__eq__", old="return self._start == other.start and self._end == other.end",
         new="return self._start == other.start", only="Interval.differs.end"),
    dict(name="circle-hash-ignores-centre", target="commonroad.geometry.shape:Circle.__hash__", old="return hash((self._radius, center_string))",
         new="return hash((self._radius, id(self)))", only="Circle.equal"),
    dict(name="occupancy-eq-ignores-time", target="commonroad.prediction.prediction:Occupancy.__eq__", old="return self._time_step == other.time_step and self._shape == other.shape",
         new="return self._shape == other.shape", only="Occupancy.differs.time_step"),
    dict(name="cycle-element-eq-ignores-duration", target="commonroad.scenario.traffic_light:TrafficLightCycleElement.__eq__",
         old="return self._state == other.state and self._duration == other.duration", new="return self._state == other.state",
         only="TrafficLightCycleElement.differs.duration"),
]

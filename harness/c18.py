"""C18 - Read-only operations do not change scenarios or planning problems.

A scenario with symbolic leaves is snapshotted (public accessors, XML export tree, protobuf export tree), a symbolically
chosen sequence of read-only operations runs on it, and it is snapshotted again; z3 proves that every leaf of the second
snapshot is the same value as in the first and the structure (which attributes exist, container contents) is identical."""
import copy
import pickle
import warnings
from collections import defaultdict

import numpy as np

import commonroad.common.reader.file_reader_protobuf as rp
import commonroad.common.writer.file_writer_protobuf as wp
from commonroad.common.util import AngleInterval, Interval
from commonroad.geometry.shape import Circle, Polygon, Rectangle, Shape, ShapeGroup
from commonroad.planning.goal import GoalRegion
from commonroad.planning.planning_problem import PlanningProblem, PlanningProblemSet
from commonroad.prediction.prediction import Occupancy, SetBasedPrediction, TrajectoryPrediction
from commonroad.scenario import state as st
from commonroad.scenario.obstacle import DynamicObstacle, ObstacleType, StaticObstacle
from commonroad.scenario.trajectory import Trajectory

from harness import c02, c15
from harness import fixtures as fx
from harness import xmlrt
from symex import dom, pbstub
from symex.api import obligation
from symex.core import Sym

ASSUMPTIONS = [
    "scenario: two lanelets with a traffic light and a sign, a static obstacle, a dynamic obstacle whose trajectory states are of a "
    "symbolically chosen class (KS, PM, custom with velocity_y and no orientation, custom with velocity_y and orientation), a second "
    "dynamic obstacle with a set-based prediction whose occupancies are not stored in chronological order, a "
    "planning problem with two goal states and a goal-lanelet table that is absent / a dict / a default dictionary as the XML reader "
    "builds it; positions, velocities, interval bounds and query arguments are symbolic reals / ints",
    "histories of 1 (quick) / 2 (thorough) read-only operations chosen symbolically among: occupancy / state / signal "
    "queries of obstacles, the occupancy set of the prediction, scenario-level occupancy / position / state queries, lanelet and "
    "traffic-light queries, further queries (obstacle_by_id, obstacles_by_role_and_type, str(), trajectory / prediction lookups, "
    "find_lanelet_by_shape, find_most_likely_lanelet_by_state, map_obstacles_to_lanelets, filter_obstacles_in_network, get_obstacles, "
    "dynamic_obstacle_by_time_step, interpolate_position, orientation_by_position, contains_points, convert_to_polygon, successor "
    "enumeration, find_planning_problem_by_id), goal checks, == and hash, deepcopy, XML export, protobuf export",
    "observation: public attributes of every state (which attributes exist and their values), goal-lanelet table, lanelet vertices, "
    "lanelet obstacle registries / types / users / stop line, obstacle and prediction lanelet assignments, scenario id / dt / tags / id pool, "
    "traffic-light cycle, plus the element tree of an XML export and the message tree of a protobuf export",
    "pickling, drawing and rendering run on scenarios with concrete leaves (matplotlib / pickle cannot carry proxies): every discrete "
    "alternative of the scenario is still explored",
]
OUTSIDE = ["histories longer than 2 operations", "private caches (not observable)", "3-D geometry"]
STUBS = ["DOM passthrough tree", "protobuf message stubs", "shapely-lite / STRtree-lite", "number-formatting contract"]
F = ["commonroad/prediction/prediction.py:TrajectoryPrediction._create_occupancy_set", "commonroad/prediction/prediction.py:TrajectoryPrediction.occupancy_at_time_step",
     "commonroad/scenario/obstacle.py:DynamicObstacle.occupancy_at_time", "commonroad/scenario/obstacle.py:DynamicObstacle.state_at_time",
     "commonroad/scenario/scenario.py:Scenario.occupancies_at_time_step", "commonroad/scenario/scenario.py:Scenario.obstacles_by_position_intervals",
     "commonroad/scenario/scenario.py:Scenario.obstacle_states_at_time_step", "commonroad/scenario/lanelet.py:LaneletNetwork.find_lanelet_by_position",
     "commonroad/scenario/lanelet.py:LaneletNetwork.__deepcopy__", "commonroad/scenario/traffic_light.py:TrafficLight.get_state_at_time_step",
     "commonroad/planning/goal.py:GoalRegion.is_reached", "commonroad/planning/goal.py:GoalRegion._harmonize_state_types",
     "commonroad/planning/planning_problem.py:PlanningProblem.goal_reached", "commonroad/common/writer/file_writer_xml.py:*XMLNode.*",
     "commonroad/common/writer/file_writer_protobuf.py:*Message.create_message", "commonroad/visualization/mp_renderer.py:MPRenderer.draw_*"]

STATE_KINDS = ["KS", "PM", "custom-vy", "custom-vy-orientation"]
TABLE_KINDS = ["none", "dict", "defaultdict-partial"]


def install_shims():
    xmlrt.install_shims()
    c02.install_shims()


# ---- the scenario ------------------------------------------------------------------------------------------------
def build(V, state_kind, table_kind, symbolic=True):
    xmlrt.REGIME[0] = "normal"  # every leaf is 0 or of ordinary magnitude, so that number formatting does not fork per leaf
    R = (lambda n, lo, hi, d: xmlrt.real(V, n, lo, hi)) if symbolic else (lambda n, lo, hi, d: d)
    sc = xmlrt.base_scenario()
    l1 = fx.straight_lanelet(1, 0.0, 0.0, traffic_lights={11}, traffic_signs={10})
    l2 = fx.straight_lanelet(2, 0.0, 3.0)
    sc.add_objects([l1, l2])
    sc.add_objects(fx.light(11, (9.0, 2.0), (3, 2), 1), {1})
    sc.add_objects(fx.sign(10, {1}, (1.0, 2.0)), {1})
    sx, sy = R("static_x", -20, 20, 4.0), R("static_y", -20, 20, 0.5)
    sc.add_objects(StaticObstacle(30, ObstacleType.PARKED_VEHICLE, Rectangle(2.0, 1.0), fx.init_state(0, sx, sy, 0.0)))
    x, y, vx, vy = R("dyn_x", -20, 20, 2.0), R("dyn_y", -20, 20, 3.5), R("dyn_vx", 0.5, 20, 6.0), R("dyn_vy", -20, 20, 8.0)
    states = []
    for i in (1, 2):
        pos = np.array([R(f"dyn_x{i}", -20, 20, 2.0 + i), y])
        if state_kind == "KS":
            s = st.KSState(time_step=i, position=pos, orientation=0.25, velocity=vx, steering_angle=0.0)
        elif state_kind == "PM":
            s = st.PMState(time_step=i, position=pos, velocity=vx, velocity_y=vy)
        elif state_kind == "custom-vy":
            s = st.CustomState(time_step=i, position=pos, velocity=vx, velocity_y=vy)
        else:
            s = st.CustomState(time_step=i, position=pos, orientation=0.25, velocity=vx, velocity_y=vy)
        states.append(s)
    shape = Circle(1.0)
    dyn = DynamicObstacle(31, ObstacleType.CAR, shape, fx.init_state(0, x, y, 0.25, 1.0), TrajectoryPrediction(Trajectory(1, states), shape))
    sc.add_objects(dyn)
    # a set-based prediction whose occupancies are not stored in chronological order
    occs = [Occupancy(2, Rectangle(2.0, 1.0, np.array([R("set_x2", -20, 20, 6.0), 3.5]))), Occupancy(1, Rectangle(2.0, 1.0, np.array([5.0, 3.5])))]
    sc.add_objects(DynamicObstacle(32, ObstacleType.BICYCLE, Rectangle(2.0, 1.0), fx.init_state(0, 4.0, 3.5, 0.0, 1.0), SetBasedPrediction(1, occs)))
    g0 = st.CustomState(time_step=Interval(0, 10), position=Rectangle(6.0, 4.0, np.array([R("goal_x", -20, 20, 3.0), 3.0])),
                        velocity=Interval(R("goal_v_lo", 0, 5, 0.0), R("goal_v_hi", 5, 30, 20.0)), orientation=AngleInterval(-1.0, 1.5))
    g1 = st.CustomState(time_step=Interval(5, 20))
    table = None if table_kind == "none" else {0: [1], 1: [2]} if table_kind == "dict" else defaultdict(list, {0: [1]})
    pps = PlanningProblemSet([PlanningProblem(5, fx.init_state(0, 1.0, 0.0, 0.0, 2.0), GoalRegion([g0, g1], table))])
    return sc, pps


# ---- observation -----------------------------------------------------------------------------------------------------
def leaf(v):
    if isinstance(v, np.ndarray):
        return ("array",) + tuple(leaf(x) for x in v.tolist()) if v.dtype != object else ("array",) + tuple(leaf(x) for x in v)
    if isinstance(v, Interval):
        return (type(v).__name__, v.start, v.end)
    if isinstance(v, Rectangle):
        return ("Rectangle", v.length, v.width, v.orientation, leaf(v.center))
    if isinstance(v, Circle):
        return ("Circle", v.radius, leaf(v.center))
    if isinstance(v, Polygon):
        return ("Polygon", leaf(v.vertices))
    if isinstance(v, ShapeGroup):
        return ("ShapeGroup",) + tuple(leaf(s) for s in v.shapes)
    if isinstance(v, (list, tuple)):
        return tuple(leaf(x) for x in v)
    if isinstance(v, (set, frozenset)):
        return ("set",) + tuple(sorted(v, key=repr))
    return v


def state_view(s):
    if s is None:
        return None
    return (type(s).__name__,) + tuple((a, leaf(getattr(s, a))) for a in s.used_attributes)


def direct_view(sc, pps):
    out = []
    for o in sc.obstacles:
        row = [o.obstacle_id, type(o).__name__, o.obstacle_type, leaf(o.obstacle_shape), state_view(o.initial_state),
               state_view(o.initial_signal_state), tuple(state_view(s) for s in (o.signal_series or []))]
        if isinstance(o, DynamicObstacle) and isinstance(o.prediction, TrajectoryPrediction):
            tr = o.prediction.trajectory
            row.append((tr.initial_time_step, tuple(state_view(s) for s in tr.state_list), leaf(o.prediction.shape)))
        elif isinstance(o, DynamicObstacle) and isinstance(o.prediction, SetBasedPrediction):
            row.append(tuple((oc.time_step, leaf(oc.shape)) for oc in o.prediction.occupancy_set))
        out.append(tuple(row))
    for l in sc.lanelet_network.lanelets:
        out.append((l.lanelet_id, leaf(l.left_vertices), leaf(l.center_vertices), leaf(l.right_vertices), leaf(l.predecessor), leaf(l.successor),
                    l.adj_left, l.adj_right, leaf(l.traffic_signs), leaf(l.traffic_lights), l.line_marking_left_vertices, l.line_marking_right_vertices))
        out.append(("registries", l.lanelet_id, _registry(l.dynamic_obstacles_on_lanelet), leaf(l.static_obstacles_on_lanelet), leaf(l.lanelet_type),
                    leaf(l.user_one_way), leaf(l.user_bidirectional), l.adj_left_same_direction, l.adj_right_same_direction,
                    None if l.stop_line is None else (leaf(l.stop_line.start), leaf(l.stop_line.end), l.stop_line.line_marking,
                                                      leaf(l.stop_line.traffic_sign_ref), leaf(l.stop_line.traffic_light_ref))))
    out.append(("scenario", str(sc.scenario_id), sc.dt, leaf(sc.tags), sc.author, sc.affiliation, sc.source, ("set",) + tuple(sorted(sc._id_set)),
                tuple(sorted(o.obstacle_id for o in sc.obstacles))))
    for o in sc.obstacles:
        out.append(("assignment", o.obstacle_id, leaf(o.initial_center_lanelet_ids), leaf(o.initial_shape_lanelet_ids)))
        if isinstance(o, DynamicObstacle) and o.prediction is not None:
            out.append(("prediction assignment", o.obstacle_id, _registry(getattr(o.prediction, "center_lanelet_assignment", None)),
                        _registry(getattr(o.prediction, "shape_lanelet_assignment", None)), o.prediction.initial_time_step, o.prediction.final_time_step))
    for tl in sc.lanelet_network.traffic_lights:
        cyc = tl.traffic_light_cycle
        out.append((tl.traffic_light_id, leaf(tl.position), tl.active, tl.direction,
                    None if cyc is None else (cyc.time_offset, tuple((e.state, e.duration) for e in cyc.cycle_elements))))
    for ts in sc.lanelet_network.traffic_signs:
        out.append((ts.traffic_sign_id, leaf(ts.position), ts.virtual, leaf(ts.first_occurrence),
                    tuple((e.traffic_sign_element_id, tuple(e.additional_values)) for e in ts.traffic_sign_elements)))
    out.append(("lanelet lookup", leaf(_quiet(lambda: sc.lanelet_network.find_lanelet_by_position([np.array([2.5, 0.75]), np.array([2.5, 3.5])])))))
    for pid, p in pps.planning_problem_dict.items():
        table = p.goal.lanelets_of_goal_position
        out.append((pid, state_view(p.initial_state), tuple(state_view(s) for s in p.goal.state_list),
                    None if table is None else tuple(sorted((k, tuple(v)) for k, v in table.items()))))
    return tuple(out)


def _registry(d):
    return None if d is None else tuple(sorted((k, leaf(v)) for k, v in d.items()))


def xml_view(V, sc, pps):
    w = xmlrt.write(V, sc, pps, 4)
    if V.symbolic:
        return c15.strip_date(dom.dump_structure(w._root_node))
    return c15.DATE.sub(b"", w._dump())


def pb_view(V, sc, pps):
    w = c02.write(V, sc, pps)
    m = w._commonroad_msg
    d = pbstub.dump(m)
    d.get("information", {}).pop("file_information", None)
    info = d.get("information", {})
    for k in list(info):
        if "date" in k or "time" in k and k != "time_step_size":
            info.pop(k)
    return _plain(d)


def _plain(d):
    if isinstance(d, dict):
        return tuple((k, _plain(v)) for k, v in sorted(d.items()))
    if isinstance(d, (list, tuple)):
        return tuple(_plain(x) for x in d)
    return d


def same(V, a, b, conds):
    """appends the conditions under which two views are identical (structure concretely, leaves through the solver)"""
    if isinstance(a, tuple) or isinstance(b, tuple):
        if not (isinstance(a, tuple) and isinstance(b, tuple) and len(a) == len(b)):
            conds.append(False)
            return
        for x, y in zip(a, b):
            same(V, x, y, conds)
            if conds and conds[-1] is False:
                return
        return
    if isinstance(a, Sym) or isinstance(b, Sym):
        conds.append(V.eq(a, b))
    elif isinstance(a, float) and isinstance(b, float):
        conds.append(a == b or (a != a and b != b))
    else:
        conds.append(type(a) is type(b) and a == b)


def observe(V, sc, pps, with_exports=True):
    view = {"public attributes": direct_view(sc, pps)}
    if with_exports:
        view["XML export"] = xml_view(V, sc, pps)
        view["protobuf export"] = pb_view(V, sc, pps)
        view["public attributes after the exports"] = direct_view(sc, pps)
    return view


def compare(V, before, after, what):
    for k in before:
        b, a = before[k], after[k]
        if V.symbolic and k == "XML export":
            conds = c15.tree_eq(b, a)
        elif isinstance(b, bytes):
            conds = [a == b]
        else:
            conds = []
            same(V, b, a, conds)
        V.prove(f"{what}: {k} unchanged", V.And(conds) if conds else True)
    same_first = []
    same(V, before["public attributes"], before.get("public attributes after the exports", before["public attributes"]), same_first)
    V.prove(f"{what}: exporting did not change the public attributes", V.And(same_first) if same_first else True)


# ---- read-only operations ---------------------------------------------------------------------------------------------------
def _quiet(f):
    try:
        return f()
    except Exception:  # noqa: BLE001 - a query may legitimately reject its arguments; what matters is what it leaves behind
        return None


def op_obstacle_queries(V, sc, pps):
    t = V.int("query_time_step", 0, 3)
    for o in sc.obstacles:
        _quiet(lambda: o.occupancy_at_time(t))
        _quiet(lambda: o.state_at_time(t))
        _quiet(lambda: o.signal_state_at_time_step(t))


def op_occupancy_set(V, sc, pps):
    for o in sc.dynamic_obstacles:
        _quiet(lambda: o.prediction.occupancy_set)
        _quiet(lambda: o.prediction.final_time_step)
        _quiet(lambda: o.prediction.initial_time_step)


def op_scenario_queries(V, sc, pps):
    t = V.int("scenario_time_step", 0, 3)
    _quiet(lambda: sc.occupancies_at_time_step(t))
    _quiet(lambda: sc.obstacle_states_at_time_step(t))
    _quiet(lambda: sc.obstacles_by_position_intervals([Interval(-40.0, 40.0), Interval(-40.0, 40.0)], time_step=t))


def op_lanelet_queries(V, sc, pps):
    px, py = 2.5, 0.75 + V.choice("query_point_lanelet", 3) * 2.0  # inside lanelet 1 / on the shared boundary / inside lanelet 2
    net = sc.lanelet_network
    _quiet(lambda: net.find_lanelet_by_position([np.array([px, py])]))
    _quiet(lambda: net.find_lanelet_by_id(1).polygon)
    _quiet(lambda: net.find_lanelet_by_id(2).distance)
    _quiet(lambda: net.lanelets_in_proximity(np.array([px, py]), 3.0))
    t = V.int("light_time_step", 0, 12)
    for tl in net.traffic_lights:
        _quiet(lambda: tl.get_state_at_time_step(t))


def op_further_queries(V, sc, pps):
    """queries of the three containers that the other operations do not reach"""
    t = 1  # concrete: dictionary lookups need a concrete key
    net = sc.lanelet_network
    _quiet(lambda: sc.obstacle_by_id(31))
    _quiet(lambda: sc.obstacle_by_id(99))
    _quiet(lambda: sc.obstacles_by_role_and_type())
    _quiet(lambda: str(sc))
    for o in sc.obstacles:
        _quiet(lambda: str(o))
        _quiet(lambda: str(o.initial_state))
    for o in sc.dynamic_obstacles:
        if not isinstance(o.prediction, TrajectoryPrediction):
            continue
        tr = o.prediction.trajectory
        _quiet(lambda: tr.state_at_time_step(t))
        _quiet(lambda: tr.final_state)
        _quiet(lambda: o.prediction.occupancy_at_time_step(t))
        _quiet(lambda: net.find_most_likely_lanelet_by_state([tr.state_list[0]]))
    _quiet(lambda: net.find_lanelet_by_shape(Rectangle(2.0, 1.0, np.array([2.5, 1.5]))))
    _quiet(lambda: net.map_obstacles_to_lanelets(sc.obstacles))
    _quiet(lambda: net.filter_obstacles_in_network(sc.obstacles))
    for l in net.lanelets:
        _quiet(lambda: l.get_obstacles(sc.obstacles, t))
        _quiet(lambda: l.dynamic_obstacle_by_time_step(t))
        _quiet(lambda: l.interpolate_position(2.5))
        _quiet(lambda: l.orientation_by_position(np.array([2.5, 0.75])))
        _quiet(lambda: l.contains_points(np.array([[2.5, 0.75]])))
        _quiet(lambda: l.convert_to_polygon())
        _quiet(lambda: l.find_lanelet_successors_in_range(net, 20.0))
        _quiet(lambda: type(l).all_lanelets_by_merging_successors_from_lanelet(l, net))
    for ts in net.traffic_signs:
        _quiet(lambda: str(ts))
    _quiet(lambda: pps.find_planning_problem_by_id(5))
    for p in pps.planning_problem_dict.values():
        _quiet(lambda: str(p.goal.state_list[0]))
        _quiet(lambda: p.goal.state_list[0].attributes)


def op_goal_checks(V, sc, pps):
    for p in pps.planning_problem_dict.values():
        for o in sc.dynamic_obstacles:
            if not isinstance(o.prediction, TrajectoryPrediction):
                continue
            for s in o.prediction.trajectory.state_list:
                _quiet(lambda: p.goal.is_reached(s))
            _quiet(lambda: p.goal_reached(o.prediction.trajectory))
        _quiet(lambda: p.goal.is_reached(p.initial_state))


def op_eq_hash(V, sc, pps):
    _quiet(lambda: sc == sc)
    _quiet(lambda: hash(sc))
    _quiet(lambda: pps == pps)
    _quiet(lambda: hash(pps))
    for o in sc.obstacles:
        _quiet(lambda: (o == o, hash(o)))


def op_deepcopy(V, sc, pps):
    _quiet(lambda: copy.deepcopy(sc))
    _quiet(lambda: copy.deepcopy(pps))
    _quiet(lambda: copy.deepcopy(sc.lanelet_network))


def op_xml_export(V, sc, pps):
    _quiet(lambda: xml_view(V, sc, pps))


def op_pb_export(V, sc, pps):
    _quiet(lambda: pb_view(V, sc, pps))


OPS = [("obstacle occupancy / state / signal queries", op_obstacle_queries), ("occupancy set of the prediction", op_occupancy_set),
       ("scenario-level queries", op_scenario_queries), ("lanelet and traffic-light queries", op_lanelet_queries), ("goal checks", op_goal_checks),
       ("further obstacle / lanelet / planning-problem queries", op_further_queries),
       ("== and hash", op_eq_hash), ("deepcopy", op_deepcopy), ("XML export", op_xml_export), ("protobuf export", op_pb_export)]


class FixedArguments:
    """two-operation histories: the operations' own arguments (time steps, query point) are fixed so that the forks are the
    history, the state kind and the goal-lanelet table; the one-operation histories keep them symbolic"""

    def __init__(self, V):
        self._V = V

    def __getattr__(self, name):
        return getattr(self._V, name)

    def int(self, name, lo=None, hi=None):
        if name in ("query_time_step", "scenario_time_step", "light_time_step"):
            return 1
        return self._V.int(name, lo, hi)

    def choice(self, name, n):
        if name in ("query_point_lanelet", "further_time_step"):
            return 1
        return self._V.choice(name, n)


def _history(state_kind, steps, tier):
    @obligation("C18", f"history.{state_kind}.{steps}-ops", tier=tier, functions=F, max_paths={"quick": 4000, "thorough": 60000},
                bounds=f"trajectory states of kind {state_kind}; goal-lanelet table none / dict / default dictionary; every sequence of {steps} read-only "
                       f"operations out of {len(OPS)}; symbolic positions, velocities, interval bounds, query points and time steps")
    def ob(V):
        warnings.filterwarnings("ignore")
        table_kind = TABLE_KINDS[V.choice("goal_lanelet_table", len(TABLE_KINDS))]
        sc, pps = build(V, state_kind, table_kind)
        before = observe(V, sc, pps)
        names = []
        for k in range(steps):
            i = V.choice(f"op_{k}", len(OPS))
            names.append(OPS[i][0])
            OPS[i][1](V if steps == 1 else FixedArguments(V), sc, pps)
        after = observe(V, sc, pps)
        compare(V, before, after, "after the read-only operations")

    return ob


for _k in STATE_KINDS:
    _history(_k, 1, "quick")
for _k in STATE_KINDS:
    _history(_k, 2, "thorough")


# ---- operations that cannot carry proxies: concrete leaves, every discrete alternative ------------------------------------
def op_pickle(V, sc, pps):
    pickle.loads(pickle.dumps(sc))
    pickle.loads(pickle.dumps(pps))
    pickle.loads(pickle.dumps(sc.lanelet_network))


def op_draw(V, sc, pps):
    import matplotlib

    matplotlib.use("Agg")
    import matplotlib.pyplot as plt

    from commonroad.visualization.mp_renderer import MPRenderer

    t = V.choice("draw_time_begin", 3)
    fig = plt.figure(figsize=(4, 3))
    try:
        rnd = MPRenderer(ax=fig.gca())
        rnd.draw_params.time_begin = t
        rnd.draw_params.time_end = t + 2
        rnd.draw_params.dynamic_obstacle.trajectory.draw_trajectory = True
        rnd.draw_params.dynamic_obstacle.draw_icon = V.choice("draw_icon", 2) == 1
        rnd.draw_params.lanelet_network.traffic_light.draw_traffic_lights = True
        sc.draw(rnd)
        pps.draw(rnd)
        rnd.render()
    finally:
        plt.close(fig)


CONCRETE_OPS = [("pickle round trip", op_pickle), ("drawing and rendering", op_draw)]


@obligation("C18", "concrete-carriers.pickle-draw", functions=F,
            bounds="scenario with concrete leaves, every state kind x goal-lanelet table kind x line marking x operation in {pickle, draw+render} "
                   "x time window; observation as in the symbolic histories (real XML bytes, real protobuf message)")
def concrete_carriers(V):
    from commonroad.common.common_lanelet import LineMarking

    warnings.filterwarnings("ignore")
    state_kind = STATE_KINDS[V.choice("state_kind", len(STATE_KINDS))]
    table_kind = TABLE_KINDS[V.choice("goal_lanelet_table", len(TABLE_KINDS))]
    marking = [LineMarking.NO_MARKING, LineMarking.SOLID, LineMarking.BROAD_DASHED][V.choice("line_marking", 3)]
    sc, pps = build(V, state_kind, table_kind, symbolic=False)
    for l in sc.lanelet_network.lanelets:
        l.line_marking_left_vertices = marking
        l.line_marking_right_vertices = marking
    i = V.choice("operation", len(CONCRETE_OPS))
    real_io = _RealIO()
    with real_io:
        before = observe(real_io, sc, pps)
        CONCRETE_OPS[i][1](V, sc, pps)
        CONCRETE_OPS[i][1](V, sc, pps)
        after = observe(real_io, sc, pps)
    compare(real_io.bind(V), before, after, f"after {CONCRETE_OPS[i][0]}")


class _RealIO:
    """the concrete-leaf obligation uses the real lxml / google.protobuf even in the exploring run"""
    symbolic = False

    def __enter__(self):
        import commonroad.common.writer.file_writer_xml as wr
        import lxml.etree

        import builtins

        self._wr, self._keep = wr, (wr.etree, getattr(wr, "str", builtins.str), getattr(wr, "format", builtins.format))

        wr.etree, wr.str, wr.format = lxml.etree, builtins.str, builtins.format
        self._pb = {k: v for k, v in vars(wp).items() if isinstance(v, pbstub.StubModule)}
        for k, v in self._pb.items():
            setattr(wp, k, v._real)
        return self

    def __exit__(self, *a):
        self._wr.etree, self._wr.str, self._wr.format = self._keep
        for k, v in self._pb.items():
            setattr(wp, k, v)

    def bind(self, V):
        self._V = V
        return self

    def __getattr__(self, name):
        return getattr(self._V, name)


_P = "commonroad.prediction.prediction:"
_G = "commonroad.planning.goal:"
_L = "commonroad.scenario.lanelet:"
_WP = "commonroad.common.writer.file_writer_protobuf:"
MUTANTS = [
    dict(name="occupancy-set-writes-orientation-into-the-state", target=_P + "TrajectoryPrediction._create_occupancy_set",
         old="                state = CustomState(**values)", new='                state.orientation = values["orientation"]', only="history.custom-vy.1-ops"),
    dict(name="goal-check-without-copy", target=_G + "GoalRegion._harmonize_state_types", old="state_new = copy.deepcopy(state)", new="state_new = state",
         only="history.custom-vy-orientation.1-ops"),
    dict(name="deepcopy-leaves-network-without-index", target=_L + "LaneletNetwork.__deepcopy__", old="        # restore\n        self._create_strtree()\n",
         new="", only="history.KS.1-ops"),
    dict(name="protobuf-export-grows-default-dictionary", target=_WP + "PlanningProblemMessage.create_message",
         old="                and i in planning_problem.goal.lanelets_of_goal_position\n", new="", only="history.PM.1-ops"),
    dict(name="xml-export-sorts-trajectory-in-place", target="commonroad.common.writer.file_writer_xml:DynamicObstacleXMLNode._create_trajectory_node",
         old="for state in trajectory.state_list:", new="trajectory.state_list.reverse()\n        for state in trajectory.state_list:", only="history.KS.1-ops"),
]

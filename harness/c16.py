"""C16 - Interval and AngleInterval behave as the closed sets they denote."""
import math

import commonroad.common.util as util
from commonroad.common.util import AngleInterval, Interval

from symex.api import obligation

TWO_PI = 2.0 * math.pi
F = ["commonroad/common/util.py:Interval.*", "commonroad/common/util.py:AngleInterval.*",
     "commonroad/common/util.py:make_valid_orientation_interval", "commonroad/common/util.py:vectorized_angle_difference",
     "commonroad/common/validity.py:is_valid_orientation", "commonroad/common/validity.py:is_in_interval"]

ASSUMPTIONS = [
    "angle intervals: -2pi <= a <= b <= 2pi, b - a < 2pi; query angles and shifts in [-2pi, 2pi]",
    "pi is the rational value of the double math.pi; arctan2(sin d, cos d) is the wrap of d into (-pi, pi]",
    "round(x, n) is the exact half-even rounding of the real x to n decimals, n in {None,0,1,2,3}",
    "both operands of an interval-in-interval test are of the same class",
]
OUTSIDE = ["IEEE rounding of the arithmetic on end points", "mixing Interval and AngleInterval operands"]
STUBS = ["symmath.fmod / sin / cos / arctan2 idiom (wrap), see DESIGN.md 1.4"]


def _num(V, kind, name, lo=None, hi=None):
    return V.real(name, lo, hi) if kind == "real" else V.int(name, lo, hi)


def _mk(kind):
    sfx = kind

    @obligation("C16", f"interval.contains.{sfx}", bounds=f"end points and query value: all {kind}s", functions=F)
    def contains(V):
        a, b, x = _num(V, kind, "a"), _num(V, kind, "b"), _num(V, kind, "x")
        V.assume(a <= b)
        iv = Interval(a, b)
        spec = V.And(a <= x, x <= b)
        V.prove("contains(x) <=> a<=x<=b", V.iff(iv.contains(x), spec))
        V.prove("x in I <=> a<=x<=b", V.iff(x in iv, spec))
        V.prove("length", V.eq(iv.length, b - a))
        V.prove("I > x <=> all points above x", V.iff(iv > x, a > x))
        V.prove("I < x <=> all points below x", V.iff(iv < x, b < x))

    @obligation("C16", f"interval.reject.{sfx}", bounds=f"end points: all {kind}s with start > end", functions=F)
    def reject(V):
        a, b = _num(V, kind, "a"), _num(V, kind, "b")
        V.assume(a > b)
        try:
            Interval(a, b)
        except AssertionError:
            V.reach("start>end rejected")
            return
        V.fail("start>end accepted")

    @obligation("C16", f"interval.binary.{sfx}", bounds=f"two intervals, all {kind} end points", functions=F)
    def binary(V):
        a, b, c, d = (_num(V, kind, n) for n in "abcd")
        V.assume(a <= b)
        V.assume(c <= d)
        i1, i2 = Interval(a, b), Interval(c, d)
        V.prove("contains(I2) <=> subset", V.iff(i1.contains(i2), V.And(a <= c, d <= b)))
        V.prove("I2 in I1 <=> subset", V.iff(i2 in i1, V.And(a <= c, d <= b)))
        lo, hi = V.max(a, c), V.min(b, d)
        V.prove("overlaps <=> nonempty intersection", V.iff(i1.overlaps(i2), lo <= hi))
        V.prove("I1 > I2", V.iff(i1 > i2, a > d))
        V.prove("I1 < I2", V.iff(i1 < i2, b < c))
        r = i1.intersection(i2)
        if r is None:
            V.prove("intersection None only if disjoint", V.Not(lo <= hi))
        else:
            V.prove("intersection = [max,min]", V.And(lo <= hi, V.eq(r.start, lo), V.eq(r.end, hi), r.start <= r.end))

    @obligation("C16", f"interval.shift.{sfx}", bounds=f"all {kind} end points and shifts", functions=F)
    def shift(V):
        a, b, s = (_num(V, kind, n) for n in "abs")
        V.assume(a <= b)
        iv = Interval(a, b)
        p, m = iv + s, iv - s
        V.prove("I+s", V.And(V.eq(p.start, a + s), V.eq(p.end, b + s), p.start <= p.end))
        V.prove("I-s", V.And(V.eq(m.start, a - s), V.eq(m.end, b - s), m.start <= m.end))

    for kk in ("real", "int"):
        def _scale(V, kind=kind, kk=kk):
            a, b = _num(V, kind, "a"), _num(V, kind, "b")
            k = _num(V, kk, "k")
            V.assume(a <= b)
            iv = Interval(a, b)
            p = iv * k
            lo, hi = V.min(a * k, b * k), V.max(a * k, b * k)
            V.prove("I*k image set", V.And(V.eq(p.start, lo), V.eq(p.end, hi), p.start <= p.end))
            if V.symbolic:
                V.assume(V.Not(k == 0))
            elif k == 0:
                return
            q = iv / k
            lo, hi = V.min(a / k, b / k), V.max(a / k, b / k)
            V.prove("I/k image set", V.And(V.eq(q.start, lo), V.eq(q.end, hi), q.start <= q.end))

        obligation("C16", f"interval.scale.{sfx}.by-{kk}", bounds=f"all {kind} end points, all {kk} factors (k != 0 for /)",
                   functions=F)(_scale)

    return contains, reject, binary, shift


_mk("real")
_mk("int")


@obligation("C16", "interval.round", bounds="real end points, n in {None,0,1,2,3}", functions=F,
            outside="binary representation effects of float round (e.g. round(2.675, 2))")
def iv_round(V):
    a, b = V.real("a"), V.real("b")
    V.assume(a <= b)
    n = [None, 0, 1, 2, 3][V.choice("n_idx", 5)]
    iv = Interval(a, b)
    r = round(iv, n)
    V.prove("round: start<=end", r.start <= r.end)
    ra, rb = round(a, n), round(b, n)
    V.prove("round: image end points", V.And(V.eq(r.start, ra), V.eq(r.end, rb)))
    if V.symbolic:
        # the image of [a,b] under the monotone rounding map is inside [round(a), round(b)]
        x = V.real("x")
        V.assume(V.And(a <= x, x <= b))
        rx = round(x, n)
        V.prove("round: image of every point inside", V.And(r.start <= rx, rx <= r.end))


def _angle_iv(V):
    a, b = V.real("a", -TWO_PI, TWO_PI), V.real("b", -TWO_PI, TWO_PI)
    V.assume(a <= b)
    V.assume(b - a < TWO_PI)
    return a, b


def _mod_contains(V, a, b, x):
    return V.exists_int(-3, 3, lambda k: V.And(a <= x + TWO_PI * k, x + TWO_PI * k <= b))


@obligation("C16", "angle.contains.float", functions=F,
            bounds="-2pi<=a<=b<=2pi, b-a<2pi, x in [-2pi,2pi]; k in -3..3 covers these ranges")
def angle_contains(V):
    a, b = _angle_iv(V)
    x = V.real("x", -TWO_PI, TWO_PI)
    iv = AngleInterval(a, b)
    V.prove("stored end points denote the same set", V.exists_int(-2, 2, lambda k: V.And(
        V.eq(iv.start, a + TWO_PI * k), V.eq(iv.end, b + TWO_PI * k))))
    spec = _mod_contains(V, a, b, x)
    V.prove("contains(theta) <=> theta+2pi k in [a,b]", V.iff(iv.contains(x), spec))
    V.prove("theta in I <=> theta+2pi k in [a,b]", V.iff(x in iv, spec))


@obligation("C16", "angle.contains.int", functions=F, bounds="as angle.contains.float with an int angle in -6..6")
def angle_contains_int(V):
    a, b = _angle_iv(V)
    x = V.int("x", -6, 6)
    iv = AngleInterval(a, b)
    spec = _mod_contains(V, a, b, x)
    V.prove("contains(int theta)", V.iff(iv.contains(x), spec))
    V.prove("int theta in I", V.iff(x in iv, spec))


@obligation("C16", "angle.contains.interval", functions=F,
            bounds="two angle intervals, end points in [-2pi,2pi], lengths < 2pi")
def angle_contains_interval(V):
    a, b = _angle_iv(V)
    c, d = V.real("c", -TWO_PI, TWO_PI), V.real("d", -TWO_PI, TWO_PI)
    V.assume(c <= d)
    V.assume(d - c < TWO_PI)
    i1, i2 = AngleInterval(a, b), AngleInterval(c, d)
    # all points of [c,d] (mod 2pi) are in [a,b] (mod 2pi); as b-a<2pi the connected set [c,d] must fit in one copy
    spec = V.exists_int(-3, 3, lambda k: V.And(a <= c + TWO_PI * k, d + TWO_PI * k <= b))
    V.prove("contains(AngleInterval) <=> every point contained", V.iff(i1.contains(i2), spec))


@obligation("C16", "angle.shift", functions=F, bounds="angle interval as above, shift in [-2pi,2pi]")
def angle_shift(V):
    a, b = _angle_iv(V)
    s = V.real("s", -TWO_PI, TWO_PI)
    iv = AngleInterval(a, b)
    p = iv + s
    V.prove("shifted interval is valid", V.And(p.start <= p.end, p.start >= -TWO_PI, p.end <= TWO_PI))
    V.prove("shifted interval denotes the shifted set mod 2pi", V.exists_int(-3, 3, lambda k: V.And(
        V.eq(p.start, a + s + TWO_PI * k), V.eq(p.end, b + s + TWO_PI * k))))


@obligation("C16", "angle.reject", functions=F, bounds="start > end, both in [-2pi,2pi]")
def angle_reject(V):
    a, b = V.real("a", -TWO_PI, TWO_PI), V.real("b", -TWO_PI, TWO_PI)
    V.assume(a > b)
    try:
        AngleInterval(a, b)
    except AssertionError:
        V.reach("start>end rejected")
        return
    V.fail("start>end accepted")


@obligation("C16", "angle.reassigned-end-point", functions=F + ["commonroad/common/util.py:AngleInterval.start", "commonroad/common/util.py:AngleInterval.end"],
            bounds="angle interval as above, queried once (so that anything derived from the end points exists), then start or end re-assigned "
                   "through the public setter to any admissible value (length stays < 2pi), then queried again; x in [-2pi,2pi]")
def angle_reassigned(V):
    a, b = _angle_iv(V)
    x0, x = V.real("x_before", -TWO_PI, TWO_PI), V.real("x", -TWO_PI, TWO_PI)
    iv = AngleInterval(a, b)
    V.prove("before: theta in I <=> theta+2pi k in [a,b]", V.iff(x0 in iv, _mod_contains(V, a, b, x0)))
    iv.contains(x0), iv.length
    s0, e0 = iv.start, iv.end
    n = V.real("new_end_point", -TWO_PI, TWO_PI)
    if V.choice("which", 2) == 0:
        V.assume(V.And(n >= s0, n - s0 < TWO_PI))
        iv.end = n
        s1, e1 = s0, n
    else:
        V.assume(V.And(n <= e0, e0 - n < TWO_PI))
        iv.start = n
        s1, e1 = n, e0
    V.prove("after: end points are the assigned ones", V.And(V.eq(iv.start, s1), V.eq(iv.end, e1), V.eq(iv.length, e1 - s1)))
    spec = _mod_contains(V, s1, e1, x)
    V.prove("after: theta in I <=> theta+2pi k in the new [start,end]", V.iff(x in iv, spec))
    V.prove("after: contains(theta) <=> theta+2pi k in the new [start,end]", V.iff(iv.contains(x), spec))
    c, d = V.real("c", -TWO_PI, TWO_PI), V.real("d", -TWO_PI, TWO_PI)
    V.assume(V.And(c <= d, d - c < TWO_PI))
    V.prove("after: contains(AngleInterval) <=> every point contained", V.iff(iv.contains(AngleInterval(c, d)), V.exists_int(
        -3, 3, lambda k: V.And(s1 <= c + TWO_PI * k, d + TWO_PI * k <= e1))))


@obligation("C16", "interval.reassigned-end-point", functions=F, bounds="real end points; start or end re-assigned through the public setter after a query")
def interval_reassigned(V):
    a, b, x0, x = V.real("a"), V.real("b"), V.real("x_before"), V.real("x")
    V.assume(a <= b)
    iv = Interval(a, b)
    V.prove("before", V.iff(iv.contains(x0), V.And(a <= x0, x0 <= b)))
    iv.length
    n = V.real("new_end_point")
    if V.choice("which", 2) == 0:
        V.assume(n >= a)
        iv.end = n
        s1, e1 = a, n
    else:
        V.assume(n <= b)
        iv.start = n
        s1, e1 = n, b
    V.prove("after: contains <=> in the new [start,end]", V.iff(iv.contains(x), V.And(s1 <= x, x <= e1)))
    V.prove("after: x in I <=> in the new [start,end]", V.iff(x in iv, V.And(s1 <= x, x <= e1)))
    V.prove("after: length", V.eq(iv.length, e1 - s1))
    c, d = V.real("c"), V.real("d")
    V.assume(c <= d)
    o = Interval(c, d)
    V.prove("after: overlaps <=> sets meet", V.iff(iv.overlaps(o), V.And(s1 <= d, c <= e1)))
    V.prove("after: contains(interval) <=> subset", V.iff(iv.contains(o), V.And(s1 <= c, d <= e1)))

_U = "commonroad.common.util:"
MUTANTS = [
    dict(name="contains-open-right", target=_U + "Interval.contains", old="self.start <= other <= self.end", new="self.start <= other < self.end"),
    dict(name="contains-interval-end", target=_U + "Interval.contains", old="other.end <= self.end", new="other.start <= self.end"),
    dict(name="overlaps-strict", target=_U + "Interval.overlaps", old="self.end >= interval.start", new="self.end > interval.start"),
    dict(name="intersection-max", target=_U + "Interval.intersection", old="max(self._start, other._start)", new="min(self._start, other._start)"),
    dict(name="div-negative-not-swapped", target=_U + "Interval.__truediv__", old="return type(self)(self._end / other, self._start / other)", new="return type(self)(self._start / -other, self._end / -other)"),
    dict(name="angle-contains-open", target=_U + "AngleInterval.__contains__", old="<= self.length", new="< self.length"),
    dict(name="angle-contains-no-wrap", target=_U + "AngleInterval.__contains__", old="(value - self.start) % TWO_PI", new="(value - self.start)"),
    dict(name="angle-subinterval-endpoints-only", target=_U + "AngleInterval.contains", old="start_diff + other.length <= self.length", new="start_diff <= self.length and (other.end - self.start) % TWO_PI <= self.length"),
    dict(name="valid-interval-loop", target=_U + "make_valid_orientation_interval", old="while angle_start > TWO_PI or angle_end > TWO_PI:", new="while angle_start > TWO_PI:"),
]

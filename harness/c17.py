"""C17 - Traffic-light state follows the cycle definition."""
import numpy as np

from commonroad.scenario.traffic_light import TrafficLight, TrafficLightCycle, TrafficLightCycleElement, TrafficLightState

from symex.api import obligation

COL = [TrafficLightState.RED, TrafficLightState.GREEN, TrafficLightState.YELLOW, TrafficLightState.RED_YELLOW,
       TrafficLightState.INACTIVE]
F = ["commonroad/scenario/traffic_light.py:TrafficLightCycle.cycle_init_timesteps",
     "commonroad/scenario/traffic_light.py:TrafficLightCycle.get_state_at_time_step",
     "commonroad/scenario/traffic_light.py:TrafficLight.get_state_at_time_step"]
ASSUMPTIONS = ["durations >= 1, offset >= 0 (ints, otherwise unbounded); any integer time step",
               "colours are concrete (position i has colour COL[i mod 5]); the returned state identifies the window"]
OUTSIDE = ["cycles with more elements than the stated bound"]
STUBS = ["real numpy cumsum/insert/argmax run on object arrays of proxies"]


def _mk(n, tier):
    @obligation("C17", f"cycle.n{n}", tier=tier, functions=F,
                bounds=f"{n} cycle elements; durations>=1, offset>=0, time step: unbounded ints")
    def ob(V):
        ds = [V.int(f"d{i}", 1) for i in range(n)]
        off = V.int("offset", 0)
        t = V.int("t")
        cyc = TrafficLightCycle([TrafficLightCycleElement(COL[i % 5], ds[i]) for i in range(n)], off)
        st = cyc.get_state_at_time_step(t)
        T = sum(ds[1:], ds[0])
        m = (t - off) % T
        lo = 0
        wins = []
        for i in range(n):
            hi = lo + ds[i]
            wins.append(V.And(lo <= m, m < hi, st is COL[i % 5]))
            lo = hi
        V.prove("state is that of the window containing (t-offset) mod T", V.Or(wins))
        # periodicity and agreement of TrafficLight with its cycle (fresh objects: no memoised table is shared)
        cyc2 = TrafficLightCycle([TrafficLightCycleElement(COL[i % 5], ds[i]) for i in range(n)], off)
        V.prove("periodic with the total duration", cyc2.get_state_at_time_step(t + T) is st)
        tl = TrafficLight(5, np.array([0.0, 0.0]), cyc2)
        V.prove("TrafficLight agrees with its cycle", tl.get_state_at_time_step(t) is st)

    return ob


for _n, _tier in ((1, "quick"), (2, "quick"), (3, "quick"), (4, "quick"), (5, "thorough"), (6, "thorough")):
    _mk(_n, _tier)


def window_claim(V, st, ds, off, t):
    T = sum(ds[1:], ds[0])
    m = (t - off) % T
    lo, wins = 0, []
    for i in range(len(ds)):
        hi = lo + ds[i]
        wins.append(V.And(lo <= m, m < hi, st is COL[i % 5]))
        lo = hi
    return V.Or(wins)


def _mk_reconfigured(n, tier):
    @obligation("C17", f"reconfigured.n{n}", tier=tier, functions=F + ["commonroad/scenario/traffic_light.py:TrafficLightCycle.time_offset",
                                                                         "commonroad/scenario/traffic_light.py:TrafficLightCycle.cycle_elements"],
                bounds=f"{n} cycle elements; the cycle is queried (so that every memoised table exists), then its offset and / or its durations are "
                       "replaced through the public setters (old and new values symbolic, old offset possibly non-zero), then queried again")
    def ob(V):
        ds = [V.int(f"d{i}", 1) for i in range(n)]
        off = V.int("offset", 0)
        t0, t = V.int("t_before"), V.int("t")
        cyc = TrafficLightCycle([TrafficLightCycleElement(COL[i % 5], ds[i]) for i in range(n)], off)
        tl = TrafficLight(5, np.array([0.0, 0.0]), cyc)
        V.prove("before the change: state of the window containing (t-offset) mod T", window_claim(V, tl.get_state_at_time_step(t0), ds, off, t0))
        what = V.choice("change", 3)  # offset / durations / both
        ds2, off2 = ds, off
        if what in (0, 2):
            off2 = V.int("new_offset", 0)
            cyc.time_offset = off2
        if what in (1, 2):
            ds2 = [V.int(f"new_d{i}", 1) for i in range(n)]
            cyc.cycle_elements = [TrafficLightCycleElement(COL[i % 5], ds2[i]) for i in range(n)]
        V.prove("after the change: state of the window of the new cycle definition", window_claim(V, cyc.get_state_at_time_step(t), ds2, off2, t))
        V.prove("after the change: TrafficLight agrees with its cycle", tl.get_state_at_time_step(t) is cyc.get_state_at_time_step(t))

    return ob


_mk_reconfigured(2, "quick")
_mk_reconfigured(3, "quick")
_mk_reconfigured(4, "thorough")


CROSS = [((5, 1, 3), (0, 1, 2), (2, 0, 1)), ((5, 1, 3), (0, 1, 2), (0, 1, 2, 1)), ((2, 2), (0, 1), (1, 0)), ((4, 1, 2, 1), (0, 1, 2, 3), (2, 1, 0, 3))]


@obligation("C17", "two-cycles-in-one-process", functions=F,
            bounds="two cycle objects built from the same set of elements in a different order / with a repeated element (4 concrete element sets "
                   "and orders, offsets 0..3: hashing a cycle needs concrete members), the first one queried before the second; any integer time steps")
def two_cycles(V):
    durs, oa, ob_ = CROSS[V.choice("elements", len(CROSS))]
    off = V.choice("offset", 4)
    t0, t = V.int("t_first"), V.int("t")
    els = [TrafficLightCycleElement(COL[i % 5], d) for i, d in enumerate(durs)]

    def claim(st, order, tt):
        T = sum(durs[i] for i in order)
        m = (tt - off) % T
        lo, wins = 0, []
        for i in order:
            wins.append(V.And(lo <= m, m < lo + durs[i], st is COL[i % 5]))
            lo += durs[i]
        return V.Or(wins)

    first = TrafficLightCycle([els[i] for i in oa], off)
    first == first
    V.prove("first cycle: state of its own window", claim(first.get_state_at_time_step(t0), oa, t0))
    second = TrafficLightCycle([els[i] for i in ob_], off)
    second == first
    V.prove("second cycle: state of its own window, in its own order", claim(second.get_state_at_time_step(t), ob_, t))
    V.prove("first cycle again", claim(first.get_state_at_time_step(t), oa, t))
    tl = TrafficLight(5, np.array([0.0, 0.0]), second)
    V.prove("TrafficLight agrees with the second cycle", tl.get_state_at_time_step(t) is second.get_state_at_time_step(t))

_T = "commonroad.scenario.traffic_light:TrafficLightCycle."
MUTANTS = [
    dict(name="argmax-off-by-one", target=_T + "get_state_at_time_step", old=") - 1\n", new=")\n"),
    dict(name="window-closed-right", target=_T + "get_state_at_time_step", old="time_step_mod < self", new="time_step_mod <= self"),
    dict(name="offset-not-subtracted", target=_T + "get_state_at_time_step", old="(time_step - self.time_offset) %", new="(time_step) %"),
    dict(name="memo-table-never-invalidated", target=_T + "_invalidate_cycle_init_timesteps", old="            del self._cycle_init_timesteps", new="            pass",
         only="reconfigured"),
    dict(name="cumsum-without-offset", target=_T + "cycle_init_timesteps", old="np.cumsum(durations) + self.time_offset", new="np.cumsum(durations)"),
]

"""C04 - Obstacle occupancy is the shape placed at the state, for every time step."""
import math

import numpy as np

from commonroad.common.util import Interval
from commonroad.geometry.shape import Circle, Polygon, Rectangle, ShapeGroup
from commonroad.prediction.prediction import Occupancy, SetBasedPrediction, TrajectoryPrediction
from commonroad.scenario import state as st
from commonroad.scenario.obstacle import (DynamicObstacle, EnvironmentObstacle, ObstacleType, PhantomObstacle,
                                          StaticObstacle)
from commonroad.scenario.trajectory import Trajectory

from symex.api import obligation

TWO_PI = 2.0 * math.pi
B = 1000.0
ASSUMPTIONS = [
    "obstacle shapes are given in the obstacle frame: rectangles and circles centred at the origin, polygons with their "
    "centroid at the origin (for these, 'rotated by the orientation and moved to the position' and the library's documented "
    "rotate-about-own-centre coincide)",
    "state orientations in [-2pi,2pi], |coordinates| <= 1000, trajectories of at most 3 states, time steps unbounded ints >= 0",
]
OUTSIDE = ["obstacle shapes with an off-centre reference point", "wheelbase (trailer) kinematics of shape groups", "IEEE rounding"]
STUBS = ["symmath cos/sin/atan2", "shapely-lite Polygon (centroid, affinity.rotate, orient)"]
F = ["commonroad/geometry/shape.py:occupancy_shape_from_state", "commonroad/geometry/shape.py:*.rotate_translate_local",
     "commonroad/scenario/obstacle.py:Obstacle.initial_state", "commonroad/scenario/obstacle.py:DynamicObstacle.occupancy_at_time",
     "commonroad/scenario/obstacle.py:DynamicObstacle.state_at_time", "commonroad/scenario/obstacle.py:StaticObstacle.occupancy_at_time",
     "commonroad/prediction/prediction.py:Prediction.occupancy_at_time_step",
     "commonroad/prediction/prediction.py:TrajectoryPrediction._create_occupancy_set",
     "commonroad/scenario/trajectory.py:Trajectory.state_at_time_step"]

# polygons with centroid at the origin
POLYS = [
    [[-2.0, -1.0], [2.0, -1.0], [0.0, 2.0]],
    [[-2.0, -1.0], [0.0, 2.0], [2.0, -1.0]],
    [[-1.0, -1.0], [-1.0, 1.0], [1.0, 1.0], [1.0, -1.0]],
]
SHAPE_KINDS = ["rectangle", "circle", "polygon", "group"]


def mk_shape(V, kind, n="s"):
    if kind == "rectangle":
        return Rectangle(V.real(n + "_len", 0.01, 100), V.real(n + "_wid", 0.01, 100), orientation=V.real(n + "_theta", -3.0, 3.0))
    if kind == "circle":
        return Circle(V.real(n + "_radius", 0.01, 100))
    if kind == "polygon":
        return Polygon(np.array(POLYS[V.choice(n + "_poly", len(POLYS))]))
    if kind == "group":
        return ShapeGroup([mk_shape(V, "rectangle", n + "0"), mk_shape(V, "circle", n + "1")])
    raise ValueError(kind)


def placed(V, occ, shape, pos, theta, tag):
    """occ is `shape` rotated by theta (about its reference point, the origin) and moved to pos"""
    if isinstance(shape, Rectangle):
        if not isinstance(occ, Rectangle):
            return False
        return V.And(isinstance(occ, Rectangle), V.close(occ.center[0], pos[0], 1e-9), V.close(occ.center[1], pos[1], 1e-9),
                     V.eq(occ.length, shape.length), V.eq(occ.width, shape.width),
                     occ.orientation >= -TWO_PI, occ.orientation <= TWO_PI,
                     V.exists_int(-2, 2, lambda k: V.close(occ.orientation, shape.orientation + theta + TWO_PI * k, 1e-9)))
    if isinstance(shape, Circle):
        if not isinstance(occ, Circle):
            return False
        return V.And(isinstance(occ, Circle), V.close(occ.center[0], pos[0], 1e-9), V.close(occ.center[1], pos[1], 1e-9),
                     V.eq(occ.radius, shape.radius))
    if isinstance(shape, Polygon):
        if not isinstance(occ, Polygon) or len(occ.vertices) != len(shape.vertices):
            return False
        c, s = V.cos(theta), V.sin(theta)
        parts = []
        for vo, vs in zip(occ.vertices, shape.vertices):
            parts.append(V.close(vo[0], c * vs[0] - s * vs[1] + pos[0], 1e-6))
            parts.append(V.close(vo[1], s * vs[0] + c * vs[1] + pos[1], 1e-6))
        return V.And(parts)
    if isinstance(shape, ShapeGroup):
        if not isinstance(occ, ShapeGroup) or len(occ.shapes) != len(shape.shapes):
            return False
        return V.And([placed(V, o, s, pos, theta, tag) for o, s in zip(occ.shapes, shape.shapes)])
    return False


def pose(V, n):
    return (V.real(n + "_x", -B, B), V.real(n + "_y", -B, B)), V.real(n + "_theta", -TWO_PI, TWO_PI)


def init_state(t0, p, th):
    return st.InitialState(time_step=t0, position=np.array([p[0], p[1]]), orientation=th, velocity=1.0, acceleration=0.0,
                           yaw_rate=0.0, slip_angle=0.0)


def _mk_traj(kind, n, tier):
    @obligation("C04", f"dynamic.trajectory.{kind}.n{n}", tier=tier, functions=F,
                bounds=f"{kind} shape, initial state + {n} trajectory states (KS), t0 >= 0, t in [t0-2, t0+{n}+2]")
    def ob(V):
        t0 = V.int("t0", 0)
        t = V.int("t")
        V.assume(V.And(t >= t0 - 2, t <= t0 + n + 2))
        shape = mk_shape(V, kind)
        poses = [pose(V, f"p{i}") for i in range(n + 1)]
        states = [st.KSState(time_step=t0 + i, position=np.array([poses[i][0][0], poses[i][0][1]]), orientation=poses[i][1],
                             velocity=1.0, steering_angle=0.0) for i in range(1, n + 1)]
        o = DynamicObstacle(7, ObstacleType.CAR, shape, init_state(t0, *poses[0]),
                            TrajectoryPrediction(Trajectory(t0 + 1, states), shape))
        occ = o.occupancy_at_time(t)
        s = o.state_at_time(t)
        inside = V.And(t >= t0, t <= t0 + n)
        if occ is None:
            V.prove("no occupancy only outside the horizon", V.Not(inside))
            V.prove("no state outside the horizon", s is None)
            return
        V.prove("occupancy only inside the horizon", inside)
        V.prove("occupancy carries the queried time step", V.eq(occ.time_step, t))
        V.prove("state returned for t has time step t", V.And(s is not None, V.eq(s.time_step, t) if s is not None else False))
        V.prove("occupancy = shape placed at the state of time t", V.Or(
            [V.And(V.eq(t, t0 + i), placed(V, occ.shape, shape, poses[i][0], poses[i][1], "occ")) for i in range(n + 1)]))
        if s is not None:
            V.prove("returned state is the state of time t", V.Or(
                [V.And(V.eq(t, t0 + i), V.eq(s.position[0], poses[i][0][0]), V.eq(s.position[1], poses[i][0][1]),
                       V.eq(s.orientation, poses[i][1])) for i in range(n + 1)]))

    return ob


for _k in SHAPE_KINDS:
    _mk_traj(_k, 2, "quick")
_mk_traj("rectangle", 1, "quick")
_mk_traj("rectangle", 3, "quick")
for _k in ("circle", "polygon", "group"):
    _mk_traj(_k, 3, "thorough")


@obligation("C04", "dynamic.pointmass", functions=F + ["commonroad/scenario/state.py:PMState.orientation"],
            bounds="rectangle shape, 2 point-mass trajectory states; heading must be atan2(vy, vx)")
def dyn_pm(V):
    t0 = V.int("t0", 0)
    k = 1 + V.choice("k", 2)
    shape = Rectangle(V.real("s_len", 0.01, 100), V.real("s_wid", 0.01, 100))
    p0, th0 = pose(V, "p0")
    ps = [(V.real(f"p{i}_x", -B, B), V.real(f"p{i}_y", -B, B)) for i in (1, 2)]
    vs = [(V.real(f"vx{i}", -50, 50), V.real(f"vy{i}", -50, 50)) for i in (1, 2)]
    states = [st.PMState(time_step=t0 + i + 1, position=np.array([ps[i][0], ps[i][1]]), velocity=vs[i][0], velocity_y=vs[i][1])
              for i in range(2)]
    o = DynamicObstacle(7, ObstacleType.CAR, shape, init_state(t0, p0, th0), TrajectoryPrediction(Trajectory(t0 + 1, states), shape))
    occ = o.occupancy_at_time(t0 + k)
    V.prove("occupancy exists", occ is not None)
    r = occ.shape
    vx, vy = vs[k - 1]
    V.prove("pm: centre at the position", V.And(V.close(r.center[0], ps[k - 1][0], 1e-9), V.close(r.center[1], ps[k - 1][1], 1e-9)))
    n = V.sqrt(vx * vx + vy * vy)
    V.prove("pm: heading is atan2(vy, vx)", V.And(V.close(n * V.cos(r.orientation), vx, 1e-6), V.close(n * V.sin(r.orientation), vy, 1e-6),
                                                    r.orientation <= math.pi + 1e-9, r.orientation >= -math.pi - 1e-9))
    V.prove("pm: dimensions kept", V.And(V.eq(r.length, shape.length), V.eq(r.width, shape.width)))


def _mk_static(kind):
    @obligation("C04", f"static.{kind}", functions=F, bounds=f"{kind} shape; any time step (also before the initial one)")
    def ob(V):
        t0 = V.int("t0", 0)
        t, t2 = V.int("t"), V.int("t2")
        shape = mk_shape(V, kind)
        p, th = pose(V, "p")
        o = StaticObstacle(3, ObstacleType.PARKED_VEHICLE, shape, init_state(t0, p, th))
        occ, occ2 = o.occupancy_at_time(t), o.occupancy_at_time(t2)
        V.prove("static: occupancy at every time", V.And(occ is not None, occ2 is not None))
        V.prove("static: shape placed at the initial state", placed(V, occ.shape, shape, p, th, "static"))
        V.prove("static: same region at all times", placed(V, occ2.shape, shape, p, th, "static"))
        V.prove("static: time step carried", V.And(V.eq(occ.time_step, t), V.eq(occ2.time_step, t2)))
        V.prove("static: state is the initial state", o.state_at_time(t) is o.initial_state)

    return ob


for _k in SHAPE_KINDS:
    _mk_static(_k)


@obligation("C04", "dynamic.setbased", functions=F, bounds="set-based prediction with 2 occupancies at int steps and 1 with a time interval, stored in any of the 6 orders")
def dyn_set(V):
    t0 = V.int("t0", 0)
    t = V.int("t")
    V.assume(V.And(t >= t0 - 2, t <= t0 + 8))
    shape = Rectangle(4.0, 2.0)
    p, th = pose(V, "p")
    cs = [(V.real(f"c{i}_x", -B, B), V.real(f"c{i}_y", -B, B)) for i in range(3)]
    hi = 3 + V.choice("interval_len", 3)
    occs = [Occupancy(t0 + 1, Rectangle(5.0, 3.0, np.array([cs[0][0], cs[0][1]]))),
            Occupancy(t0 + 2, Circle(2.0, np.array([cs[1][0], cs[1][1]]))),
            Occupancy(Interval(t0 + 3, t0 + hi), Rectangle(6.0, 3.0, np.array([cs[2][0], cs[2][1]])))]
    import itertools

    order = list(itertools.permutations(range(3)))[V.choice("stored_order", 6)]
    o = DynamicObstacle(8, ObstacleType.CAR, shape, init_state(t0, p, th), SetBasedPrediction(t0 + 1, [occs[i] for i in order]))
    occ = o.occupancy_at_time(t)
    V.prove("set-based: no state except the initial one", (o.state_at_time(t) is None) if not bool(V.eq(t, t0)) else True)
    inside = V.And(t >= t0, t <= t0 + hi)
    if occ is None:
        V.prove("set-based: None only outside the horizon", V.Not(inside))
        return
    V.prove("set-based: occupancy only inside the horizon", inside)
    V.prove("set-based: the stored occupancy for t is returned", V.Or(
        V.And(V.eq(t, t0), placed(V, occ.shape, shape, p, th, "init")),
        V.And(V.eq(t, t0 + 1), occ is occs[0]), V.And(V.eq(t, t0 + 2), occ is occs[1]),
        V.And(t >= t0 + 3, t <= t0 + hi, occ is occs[2])))


@obligation("C04", "dynamic.noprediction", functions=F, bounds="dynamic obstacle without prediction")
def dyn_nopred(V):
    t0 = V.int("t0", 0)
    t = V.int("t")
    shape = mk_shape(V, "rectangle")
    p, th = pose(V, "p")
    o = DynamicObstacle(8, ObstacleType.CAR, shape, init_state(t0, p, th))
    occ, s = o.occupancy_at_time(t), o.state_at_time(t)
    if occ is None:
        V.prove("no prediction: None exactly off the initial step", V.And(V.Not(V.eq(t, t0)), s is None))
    else:
        V.prove("no prediction: initial occupancy at the initial step", V.And(V.eq(t, t0), placed(V, occ.shape, shape, p, th, "init"),
                                                                            s is o.initial_state, V.eq(occ.time_step, t)))


@obligation("C04", "phantom-environment", functions=F + ["commonroad/scenario/obstacle.py:PhantomObstacle.occupancy_at_time",
                                                         "commonroad/scenario/obstacle.py:EnvironmentObstacle.occupancy_at_time"],
            bounds="phantom obstacle with 2 stored occupancies; environment obstacle with a circle shape")
def phantom_env(V):
    t0 = V.int("t0", 0)
    t = V.int("t")
    V.assume(V.And(t >= t0 - 2, t <= t0 + 4))
    cs = [(V.real(f"c{i}_x", -B, B), V.real(f"c{i}_y", -B, B)) for i in range(2)]
    occs = [Occupancy(t0 + i, Rectangle(5.0, 3.0, np.array([cs[i][0], cs[i][1]]))) for i in range(2)]
    ph = PhantomObstacle(9, SetBasedPrediction(t0, occs))
    occ = ph.occupancy_at_time(t)
    if occ is None:
        V.prove("phantom: None only outside the stored steps", V.Not(V.And(t >= t0, t <= t0 + 1)))
    else:
        V.prove("phantom: stored occupancy of step t", V.Or(V.And(V.eq(t, t0), occ is occs[0]), V.And(V.eq(t, t0 + 1), occ is occs[1])))
    ph2 = PhantomObstacle(10)
    V.prove("phantom without prediction has no occupancy", ph2.occupancy_at_time(t) is None)
    sh = Circle(V.real("radius", 0.01, 100), np.array([cs[0][0], cs[0][1]]))
    env = EnvironmentObstacle(11, ObstacleType.BUILDING, sh)
    eo = env.occupancy_at_time(t)
    V.prove("environment: its shape at every time", V.And(eo is not None, eo.shape is sh, V.eq(eo.time_step, t)))

MUTANTS = [
    dict(name="trajectory-index-shift", target="commonroad.scenario.trajectory:Trajectory.state_at_time_step",
         old="self._state_list[time_step - self._initial_time_step]", new="self._state_list[time_step - self._initial_time_step - 1]"),
    dict(name="trajectory-horizon-closed", target="commonroad.scenario.trajectory:Trajectory.state_at_time_step",
         old="time_step < self._initial_time_step + len", new="time_step <= self._initial_time_step + len"),
    dict(name="occupancy-lookup-geq", target="commonroad.prediction.prediction:Prediction.occupancy_at_time_step",
         old="if occ.time_step == time_step:", new="if occ.time_step >= time_step:"),
    dict(name="dynamic-late-start", target="commonroad.scenario.obstacle:DynamicObstacle.occupancy_at_time",
         old="elif time_step > self.initial_state.time_step and", new="elif time_step > self.initial_state.time_step + 1 and"),
    dict(name="rectangle-orientation-dropped", target="commonroad.geometry.shape:Rectangle.rotate_translate_local",
         old="make_valid_orientation(self._orientation + angle)", new="make_valid_orientation(angle)"),
    dict(name="pm-heading-swapped", target="commonroad.scenario.state:PMState.orientation",
         old="math.atan2(self.velocity_y, self.velocity)", new="math.atan2(self.velocity, self.velocity_y)"),
    dict(name="circle-not-moved", target="commonroad.geometry.shape:Circle.rotate_translate_local",
         old="new_center = self._center + translation", new="new_center = self._center + translation * 0.999"),
    dict(name="static-state-before-start", target="commonroad.scenario.obstacle:StaticObstacle.occupancy_at_time",
         old="return Occupancy(time_step=time_step, shape=self._initial_occupancy_shape)",
         new="return Occupancy(time_step=time_step, shape=self._initial_occupancy_shape) if time_step >= self.initial_state.time_step else None"),
    dict(name="interval-occupancy-open", target="commonroad.prediction.prediction:Prediction.occupancy_at_time_step",
         old="if occ.time_step.contains(time_step):", new="if occ.time_step.start < time_step <= occ.time_step.end:"),
]

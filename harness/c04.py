"""C04 - Obstacle occupancy is the shape placed at the state, for every time step."""
import math

import numpy as np

from commonroad.common.util import Interval
from commonroad.geometry.shape import Circle, Polygon, Rectangle, ShapeGroup
from commonroad.prediction.prediction import Occupancy, SetBasedPrediction, TrajectoryPrediction
from commonroad.scenario import state as st
from commonroad.scenario.obstacle import (DynamicObstacle, EnvironmentObstacle, ObstacleType, PhantomObstacle,
                                          StaticObstacle)
from commonroad.scenario.trajectory import Trajectory

from symex.api import obligation

TWO_PI = 2.0 * math.pi
B = 1000.0
ASSUMPTIONS = [
    "uncertain states: reference headings, region orientations and half-widths of orientation intervals come from finite sets "
    "(their cos / sin are numbers), all sizes and coordinates are symbolic; enclosure is claimed for the extreme points of every "
    "extreme placement (sufficient by convexity for uncertain positions) and for sampled + corner-alignment angles of uncertain "
    "orientations; polygon position regions have concrete vertices",
    "scenario-level queries: one obstacle of every role at symbolic places, symbolic initial time step, query time, role / type "
    "filters and position intervals",
    "obstacle shapes are given in the obstacle frame: rectangles and circles centred at the origin, polygons with their "
    "centroid at the origin (for these, 'rotated by the orientation and moved to the position' and the library's documented "
    "rotate-about-own-centre coincide)",
    "state orientations in [-2pi,2pi], |coordinates| <= 1000, trajectories of at most 3 states, time steps unbounded ints >= 0",
]
OUTSIDE = ["obstacle shapes with an off-centre reference point", "wheelbase (trailer) kinematics of shape groups", "IEEE rounding",
           "uncertain orientations between the sampled angles", "shape groups at uncertain states (the library raises ValueError)"]
STUBS = ["symmath cos/sin/atan2", "shapely-lite Polygon (centroid, affinity.rotate, orient)"]
F = ["commonroad/geometry/shape.py:occupancy_shape_from_state", "commonroad/geometry/shape.py:*.rotate_translate_local",
     "commonroad/scenario/obstacle.py:Obstacle.initial_state", "commonroad/scenario/obstacle.py:DynamicObstacle.occupancy_at_time",
     "commonroad/scenario/obstacle.py:DynamicObstacle.state_at_time", "commonroad/scenario/obstacle.py:StaticObstacle.occupancy_at_time",
     "commonroad/prediction/prediction.py:Prediction.occupancy_at_time_step",
     "commonroad/prediction/prediction.py:TrajectoryPrediction._create_occupancy_set",
     "commonroad/scenario/trajectory.py:Trajectory.state_at_time_step"]

# polygons with centroid at the origin
POLYS = [
    [[-2.0, -1.0], [2.0, -1.0], [0.0, 2.0]],
    [[-2.0, -1.0], [0.0, 2.0], [2.0, -1.0]],
    [[-1.0, -1.0], [-1.0, 1.0], [1.0, 1.0], [1.0, -1.0]],
]
SHAPE_KINDS = ["rectangle", "circle", "polygon", "group"]


def mk_shape(V, kind, n="s"):
    if kind == "rectangle":
        return Rectangle(V.real(n + "_len", 0.01, 100), V.real(n + "_wid", 0.01, 100), orientation=V.real(n + "_theta", -3.0, 3.0))
    if kind == "circle":
        return Circle(V.real(n + "_radius", 0.01, 100))
    if kind == "polygon":
        return Polygon(np.array(POLYS[V.choice(n + "_poly", len(POLYS))]))
    if kind == "group":
        return ShapeGroup([mk_shape(V, "rectangle", n + "0"), mk_shape(V, "circle", n + "1")])
    raise ValueError(kind)


def placed(V, occ, shape, pos, theta, tag):
    """occ is `shape` rotated by theta (about its reference point, the origin) and moved to pos"""
    if isinstance(shape, Rectangle):
        if not isinstance(occ, Rectangle):
            return False
        return V.And(isinstance(occ, Rectangle), V.close(occ.center[0], pos[0], 1e-9), V.close(occ.center[1], pos[1], 1e-9),
                     V.eq(occ.length, shape.length), V.eq(occ.width, shape.width),
                     occ.orientation >= -TWO_PI, occ.orientation <= TWO_PI,
                     V.exists_int(-2, 2, lambda k: V.close(occ.orientation, shape.orientation + theta + TWO_PI * k, 1e-9)))
    if isinstance(shape, Circle):
        if not isinstance(occ, Circle):
            return False
        return V.And(isinstance(occ, Circle), V.close(occ.center[0], pos[0], 1e-9), V.close(occ.center[1], pos[1], 1e-9),
                     V.eq(occ.radius, shape.radius))
    if isinstance(shape, Polygon):
        if not isinstance(occ, Polygon) or len(occ.vertices) != len(shape.vertices):
            return False
        c, s = V.cos(theta), V.sin(theta)
        parts = []
        for vo, vs in zip(occ.vertices, shape.vertices):
            parts.append(V.close(vo[0], c * vs[0] - s * vs[1] + pos[0], 1e-6))
            parts.append(V.close(vo[1], s * vs[0] + c * vs[1] + pos[1], 1e-6))
        return V.And(parts)
    if isinstance(shape, ShapeGroup):
        if not isinstance(occ, ShapeGroup) or len(occ.shapes) != len(shape.shapes):
            return False
        return V.And([placed(V, o, s, pos, theta, tag) for o, s in zip(occ.shapes, shape.shapes)])
    return False


def pose(V, n):
    return (V.real(n + "_x", -B, B), V.real(n + "_y", -B, B)), V.real(n + "_theta", -TWO_PI, TWO_PI)


def init_state(t0, p, th):
    return st.InitialState(time_step=t0, position=np.array([p[0], p[1]]), orientation=th, velocity=1.0, acceleration=0.0,
                           yaw_rate=0.0, slip_angle=0.0)


def _mk_traj(kind, n, tier):
    @obligation("C04", f"dynamic.trajectory.{kind}.n{n}", tier=tier, functions=F,
                bounds=f"{kind} shape, initial state + {n} trajectory states (KS) starting 1..3 steps after it, t0 >= 0, t in [t0-2-{n}, t0+gap+{n}+2]")
    def ob(V):
        t0 = V.int("t0", 0)
        t = V.int("t")
        g = V.int("gap", 0, 2)  # the trajectory may start later than the step after the initial state
        V.assume(V.And(t >= t0 - 2 - n, t <= t0 + g + n + 2))
        shape = mk_shape(V, kind)
        poses = [pose(V, f"p{i}") for i in range(n + 1)]
        states = [st.KSState(time_step=t0 + g + i, position=np.array([poses[i][0][0], poses[i][0][1]]), orientation=poses[i][1],
                             velocity=1.0, steering_angle=0.0) for i in range(1, n + 1)]
        o = DynamicObstacle(7, ObstacleType.CAR, shape, init_state(t0, *poses[0]),
                            TrajectoryPrediction(Trajectory(t0 + g + 1, states), shape))
        occ = o.occupancy_at_time(t)
        s = o.state_at_time(t)
        inside = V.Or(V.eq(t, t0), V.And(t >= t0 + g + 1, t <= t0 + g + n))
        if occ is None:
            V.prove("no occupancy only outside the horizon", V.Not(inside))
            V.prove("no state outside the horizon", s is None)
            return
        V.prove("occupancy only inside the horizon", inside)
        V.prove("occupancy carries the queried time step", V.eq(occ.time_step, t))
        V.prove("state returned for t has time step t", V.And(s is not None, V.eq(s.time_step, t) if s is not None else False))
        when = [V.eq(t, t0)] + [V.eq(t, t0 + g + i) for i in range(1, n + 1)]
        V.prove("occupancy = shape placed at the state of time t", V.Or(
            [V.And(when[i], placed(V, occ.shape, shape, poses[i][0], poses[i][1], "occ")) for i in range(n + 1)]))
        if s is not None:
            V.prove("returned state is the state of time t", V.Or(
                [V.And(when[i], V.eq(s.position[0], poses[i][0][0]), V.eq(s.position[1], poses[i][0][1]),
                       V.eq(s.orientation, poses[i][1])) for i in range(n + 1)]))

    return ob


for _k in SHAPE_KINDS:
    _mk_traj(_k, 2, "quick")
_mk_traj("rectangle", 1, "quick")
_mk_traj("rectangle", 3, "quick")
for _k in ("circle", "polygon", "group"):
    _mk_traj(_k, 3, "thorough")


@obligation("C04", "dynamic.pointmass", functions=F + ["commonroad/scenario/state.py:PMState.orientation"],
            bounds="rectangle shape, 2 point-mass trajectory states; heading must be atan2(vy, vx)")
def dyn_pm(V):
    t0 = V.int("t0", 0)
    k = 1 + V.choice("k", 2)
    shape = Rectangle(V.real("s_len", 0.01, 100), V.real("s_wid", 0.01, 100))
    p0, th0 = pose(V, "p0")
    ps = [(V.real(f"p{i}_x", -B, B), V.real(f"p{i}_y", -B, B)) for i in (1, 2)]
    vs = [(V.real(f"vx{i}", -50, 50), V.real(f"vy{i}", -50, 50)) for i in (1, 2)]
    states = [st.PMState(time_step=t0 + i + 1, position=np.array([ps[i][0], ps[i][1]]), velocity=vs[i][0], velocity_y=vs[i][1])
              for i in range(2)]
    o = DynamicObstacle(7, ObstacleType.CAR, shape, init_state(t0, p0, th0), TrajectoryPrediction(Trajectory(t0 + 1, states), shape))
    occ = o.occupancy_at_time(t0 + k)
    V.prove("occupancy exists", occ is not None)
    r = occ.shape
    vx, vy = vs[k - 1]
    V.prove("pm: centre at the position", V.And(V.close(r.center[0], ps[k - 1][0], 1e-9), V.close(r.center[1], ps[k - 1][1], 1e-9)))
    n = V.sqrt(vx * vx + vy * vy)
    V.prove("pm: heading is atan2(vy, vx)", V.And(V.close(n * V.cos(r.orientation), vx, 1e-6), V.close(n * V.sin(r.orientation), vy, 1e-6),
                                                    r.orientation <= math.pi + 1e-9, r.orientation >= -math.pi - 1e-9))
    V.prove("pm: dimensions kept", V.And(V.eq(r.length, shape.length), V.eq(r.width, shape.width)))


def _mk_static(kind):
    @obligation("C04", f"static.{kind}", functions=F, bounds=f"{kind} shape; any time step (also before the initial one)")
    def ob(V):
        t0 = V.int("t0", 0)
        t, t2 = V.int("t"), V.int("t2")
        shape = mk_shape(V, kind)
        p, th = pose(V, "p")
        o = StaticObstacle(3, ObstacleType.PARKED_VEHICLE, shape, init_state(t0, p, th))
        occ, occ2 = o.occupancy_at_time(t), o.occupancy_at_time(t2)
        V.prove("static: occupancy at every time", V.And(occ is not None, occ2 is not None))
        V.prove("static: shape placed at the initial state", placed(V, occ.shape, shape, p, th, "static"))
        V.prove("static: same region at all times", placed(V, occ2.shape, shape, p, th, "static"))
        V.prove("static: time step carried", V.And(V.eq(occ.time_step, t), V.eq(occ2.time_step, t2)))
        V.prove("static: state is the initial state", o.state_at_time(t) is o.initial_state)

    return ob


for _k in SHAPE_KINDS:
    _mk_static(_k)


@obligation("C04", "dynamic.setbased", functions=F, bounds="set-based prediction with 2 occupancies at int steps and 1 with a time interval, stored in any of the 6 orders")
def dyn_set(V):
    t0 = V.int("t0", 0)
    t = V.int("t")
    V.assume(V.And(t >= t0 - 2, t <= t0 + 8))
    shape = Rectangle(4.0, 2.0)
    p, th = pose(V, "p")
    cs = [(V.real(f"c{i}_x", -B, B), V.real(f"c{i}_y", -B, B)) for i in range(3)]
    hi = 3 + V.choice("interval_len", 3)
    occs = [Occupancy(t0 + 1, Rectangle(5.0, 3.0, np.array([cs[0][0], cs[0][1]]))),
            Occupancy(t0 + 2, Circle(2.0, np.array([cs[1][0], cs[1][1]]))),
            Occupancy(Interval(t0 + 3, t0 + hi), Rectangle(6.0, 3.0, np.array([cs[2][0], cs[2][1]])))]
    import itertools

    order = list(itertools.permutations(range(3)))[V.choice("stored_order", 6)]
    o = DynamicObstacle(8, ObstacleType.CAR, shape, init_state(t0, p, th), SetBasedPrediction(t0 + 1, [occs[i] for i in order]))
    occ = o.occupancy_at_time(t)
    V.prove("set-based: no state except the initial one", (o.state_at_time(t) is None) if not bool(V.eq(t, t0)) else True)
    inside = V.And(t >= t0, t <= t0 + hi)
    if occ is None:
        V.prove("set-based: None only outside the horizon", V.Not(inside))
        return
    V.prove("set-based: occupancy only inside the horizon", inside)
    V.prove("set-based: the stored occupancy for t is returned", V.Or(
        V.And(V.eq(t, t0), placed(V, occ.shape, shape, p, th, "init")),
        V.And(V.eq(t, t0 + 1), occ is occs[0]), V.And(V.eq(t, t0 + 2), occ is occs[1]),
        V.And(t >= t0 + 3, t <= t0 + hi, occ is occs[2])))


@obligation("C04", "dynamic.noprediction", functions=F, bounds="dynamic obstacle without prediction")
def dyn_nopred(V):
    t0 = V.int("t0", 0)
    t = V.int("t")
    shape = mk_shape(V, "rectangle")
    p, th = pose(V, "p")
    o = DynamicObstacle(8, ObstacleType.CAR, shape, init_state(t0, p, th))
    occ, s = o.occupancy_at_time(t), o.state_at_time(t)
    if occ is None:
        V.prove("no prediction: None exactly off the initial step", V.And(V.Not(V.eq(t, t0)), s is None))
    else:
        V.prove("no prediction: initial occupancy at the initial step", V.And(V.eq(t, t0), placed(V, occ.shape, shape, p, th, "init"),
                                                                            s is o.initial_state, V.eq(occ.time_step, t)))


@obligation("C04", "phantom-environment", functions=F + ["commonroad/scenario/obstacle.py:PhantomObstacle.occupancy_at_time",
                                                         "commonroad/scenario/obstacle.py:EnvironmentObstacle.occupancy_at_time"],
            bounds="phantom obstacle with 2 stored occupancies; environment obstacle with a circle shape")
def phantom_env(V):
    t0 = V.int("t0", 0)
    t = V.int("t")
    V.assume(V.And(t >= t0 - 2, t <= t0 + 4))
    cs = [(V.real(f"c{i}_x", -B, B), V.real(f"c{i}_y", -B, B)) for i in range(2)]
    occs = [Occupancy(t0 + i, Rectangle(5.0, 3.0, np.array([cs[i][0], cs[i][1]]))) for i in range(2)]
    ph = PhantomObstacle(9, SetBasedPrediction(t0, occs))
    occ = ph.occupancy_at_time(t)
    if occ is None:
        V.prove("phantom: None only outside the stored steps", V.Not(V.And(t >= t0, t <= t0 + 1)))
    else:
        V.prove("phantom: stored occupancy of step t", V.Or(V.And(V.eq(t, t0), occ is occs[0]), V.And(V.eq(t, t0 + 1), occ is occs[1])))
    ph2 = PhantomObstacle(10)
    V.prove("phantom without prediction has no occupancy", ph2.occupancy_at_time(t) is None)
    sh = Circle(V.real("radius", 0.01, 100), np.array([cs[0][0], cs[0][1]]))
    env = EnvironmentObstacle(11, ObstacleType.BUILDING, sh)
    eo = env.occupancy_at_time(t)
    V.prove("environment: its shape at every time", V.And(eo is not None, eo.shape is sh, V.eq(eo.time_step, t)))

MUTANTS = [
    dict(name="trajectory-index-shift", target="commonroad.scenario.trajectory:Trajectory.state_at_time_step",
         old="self._state_list[time_step - self._initial_time_step]", new="self._state_list[time_step - self._initial_time_step - 1]"),
    dict(name="trajectory-horizon-closed", target="commonroad.scenario.trajectory:Trajectory.state_at_time_step",
         old="time_step < self._initial_time_step + len", new="time_step <= self._initial_time_step + len"),
    dict(name="occupancy-lookup-geq", target="commonroad.prediction.prediction:Prediction.occupancy_at_time_step",
         old="if occ.time_step == time_step:", new="if occ.time_step >= time_step:"),
    dict(name="dynamic-late-start", target="commonroad.scenario.obstacle:DynamicObstacle.occupancy_at_time",
         old="elif time_step > self.initial_state.time_step and", new="elif time_step > self.initial_state.time_step + 1 and"),
    dict(name="rectangle-orientation-dropped", target="commonroad.geometry.shape:Rectangle.rotate_translate_local",
         old="make_valid_orientation(self._orientation + angle)", new="make_valid_orientation(angle)"),
    dict(name="pm-heading-swapped", target="commonroad.scenario.state:PMState.orientation",
         old="math.atan2(self.velocity_y, self.velocity)", new="math.atan2(self.velocity, self.velocity_y)"),
    dict(name="circle-not-moved", target="commonroad.geometry.shape:Circle.rotate_translate_local",
         old="new_center = self._center + translation", new="new_center = self._center + translation * 0.999"),
    dict(name="static-state-before-start", target="commonroad.scenario.obstacle:StaticObstacle.occupancy_at_time",
         old="return Occupancy(time_step=time_step, shape=self._initial_occupancy_shape)",
         new="return Occupancy(time_step=time_step, shape=self._initial_occupancy_shape) if time_step >= self.initial_state.time_step else None"),
    dict(name="interval-occupancy-open", target="commonroad.prediction.prediction:Prediction.occupancy_at_time_step",
         old="if occ.time_step.contains(time_step):", new="if occ.time_step.start < time_step <= occ.time_step.end:"),
]


# ---- uncertain states: the occupancy encloses the shape for every admissible position and orientation ---------------------
# Reference headings / region orientations are taken from finite sets (their cos / sin are then numbers), every length, width,
# radius and coordinate is symbolic: the enclosure claims are then linear real arithmetic over If-chains (bounding boxes), which
# z3 decides for all sizes and positions.  Shapes and regions are convex, the enclosing rectangle is convex: it suffices that
# the extreme points (corners / vertices, circle extreme points in the rectangle's axes) of every extreme placement are inside.
HEADINGS = [0.0, 0.6435011087932844, -0.9272952180016122, math.pi / 2, 2.0, -2.5]
REGION_ANGLES = [0.0, 0.5, -1.1, 2.2]
TRIANGLES = [[[-2.0, -1.0], [2.0, -1.0], [0.0, 2.0]], [[-1.0, -2.0], [2.0, 0.5], [-1.0, 1.5]]]  # centroid at the origin
TOL = 1e-7


def rot(a, p):
    c, s = math.cos(a), math.sin(a)
    return (c * p[0] - s * p[1], s * p[0] + c * p[1])


def shape_extreme_points(shape):
    """extreme points of an obstacle shape in its own frame (circle: the four axis points of every direction are covered by
    its bounding square, which is what the enclosure has to contain in the rectangle's frame - handled by the caller)"""
    if isinstance(shape, Rectangle):
        return [(sx * shape.length / 2, sy * shape.width / 2) for sx in (-1, 1) for sy in (-1, 1)]
    if isinstance(shape, Polygon):
        return [(v[0], v[1]) for v in shape.vertices[:-1]] if len(shape.vertices) > 3 and all(shape.vertices[0] == shape.vertices[-1]) else [(v[0], v[1]) for v in shape.vertices]
    raise ValueError


def region_extreme_points(region, phi):
    if isinstance(region, Rectangle):
        out = []
        for sx in (-1, 1):
            for sy in (-1, 1):
                d = rot(phi, (1.0, 0.0)), rot(phi, (0.0, 1.0))
                out.append((region.center[0] + sx * region.length / 2 * d[0][0] + sy * region.width / 2 * d[1][0],
                            region.center[1] + sx * region.length / 2 * d[0][1] + sy * region.width / 2 * d[1][1]))
        return out
    if isinstance(region, Polygon):
        return [(v[0], v[1]) for v in region.vertices][:3]
    raise ValueError


def inside_rect(V, occ, psi, point, extra=0.0):
    """point (+ a disc of radius `extra` around it) lies in the rectangle occ whose orientation is the number psi"""
    dx, dy = point[0] - occ.center[0], point[1] - occ.center[1]
    c, s = math.cos(psi), math.sin(psi)
    u, w = c * dx + s * dy, -s * dx + c * dy
    return V.And(u + extra <= occ.length / 2 + TOL, -u + extra <= occ.length / 2 + TOL, w + extra <= occ.width / 2 + TOL, -w + extra <= occ.width / 2 + TOL)


def _mk_uncertain_position(shape_kind, region_kind):
    @obligation("C04", f"uncertain.position.{shape_kind}-in-{region_kind}", functions=F,
                bounds=f"{shape_kind} shape with symbolic size, position uncertain in a {region_kind} region with symbolic size and centre, exact heading from "
                       f"{len(HEADINGS)} values x region orientation from {len(REGION_ANGLES)} values; enclosure of every corner of every extreme placement")
    def ob(V):
        psi = HEADINGS[V.choice("heading", len(HEADINGS))]
        cx, cy = V.real("cx", -B, B), V.real("cy", -B, B)
        if shape_kind == "rectangle":
            shape = Rectangle(V.real("len", 0.01, 100), V.real("wid", 0.01, 100))
        elif shape_kind == "circle":
            shape = Circle(V.real("radius", 0.01, 100))
        else:
            shape = Polygon(np.array(TRIANGLES[V.choice("triangle", len(TRIANGLES))]))
        phi = 0.0
        if region_kind == "rectangle":
            phi = REGION_ANGLES[V.choice("region_orientation", len(REGION_ANGLES))]
            region = Rectangle(V.real("region_len", 0.01, 100), V.real("region_wid", 0.01, 100), np.array([cx, cy]), phi)
        elif region_kind == "circle":
            region = Circle(V.real("region_radius", 0.01, 100), np.array([cx, cy]))
        else:
            # (a polygon region's centroid is an area-weighted quotient: with symbolic vertices that is nonlinear arithmetic z3 does
            #  not finish, so polygon regions have concrete vertices - two triangles x two scales x two places - and the obstacle's
            #  own size stays symbolic)
            tri = TRIANGLES[V.choice("region_triangle", len(TRIANGLES))]
            k = (0.5, 3.0)[V.choice("region_scale", 2)]
            cx, cy = ((0.0, 0.0), (100.0, -50.0))[V.choice("region_place", 2)]
            region = Polygon(np.array([[cx + k * p[0], cy + k * p[1]] for p in tri]))
        state = st.KSState(time_step=1, position=region, orientation=psi, velocity=1.0, steering_angle=0.0)
        o = DynamicObstacle(7, ObstacleType.CAR, shape, init_state(0, (0.0, 0.0), 0.0), TrajectoryPrediction(Trajectory(1, [state]), shape))
        occ = o.occupancy_at_time(1)
        V.prove("an occupancy is reported", occ is not None and isinstance(occ.shape, Rectangle))
        if occ is None or not isinstance(occ.shape, Rectangle):
            return
        r = occ.shape
        V.prove("the enclosing rectangle is aligned with the heading", V.close(r.orientation, psi, 1e-9))
        conds = []
        if region_kind == "circle":
            centres, extra_region = [(cx, cy)], region.radius
        else:
            centres, extra_region = region_extreme_points(region, phi), 0.0
        for p in centres:
            if shape_kind == "circle":
                conds.append(inside_rect(V, r, psi, p, extra_region + shape.radius))
            else:
                for q in shape_extreme_points(shape):
                    qq = rot(psi, q)
                    conds.append(inside_rect(V, r, psi, (p[0] + qq[0], p[1] + qq[1]), extra_region))
        V.prove("the occupancy encloses the shape at every admissible position", V.And(conds))

    return ob


for _s in ("rectangle", "circle", "polygon"):
    for _r in ("rectangle", "circle", "polygon"):
        _mk_uncertain_position(_s, _r)

DELTAS = [0.1, 0.3, 0.6435011087932844, 1.2]


def _mk_uncertain_orientation(shape_kind, with_region):
    @obligation("C04", f"uncertain.orientation.{shape_kind}{'.and-position' if with_region else ''}", functions=F,
                bounds=f"{shape_kind} shape of fixed size, orientation interval [m-d, m+d] with m from {len(HEADINGS)} values and d from {DELTAS}, admissible "
                       "orientations sampled at m + d*{-1,-1/2,0,1/2,1} and at the corner-alignment angles; symbolic position / position region")
    def ob(V):
        from commonroad.common.util import AngleInterval

        m = HEADINGS[V.choice("mid_heading", len(HEADINGS))]
        d = DELTAS[V.choice("half_width", len(DELTAS))]
        cx, cy = V.real("cx", -B, B), V.real("cy", -B, B)
        shape = Rectangle(4.0, 2.0) if shape_kind == "rectangle" else Circle(1.5) if shape_kind == "circle" else Polygon(np.array(TRIANGLES[0]))
        if with_region:
            region = Rectangle(V.real("region_len", 0.01, 100), V.real("region_wid", 0.01, 100), np.array([cx, cy]), 0.0)
            centres = region_extreme_points(region, 0.0)
            pos = region
        else:
            centres = [(cx, cy)]
            pos = np.array([cx, cy])
        state = st.CustomState(time_step=1, position=pos, orientation=AngleInterval(m - d, m + d), velocity=1.0)
        o = DynamicObstacle(7, ObstacleType.CAR, shape, init_state(0, (0.0, 0.0), 0.0), TrajectoryPrediction(Trajectory(1, [state]), shape))
        occ = o.occupancy_at_time(1)
        V.prove("an occupancy is reported", occ is not None and isinstance(occ.shape, Rectangle))
        if occ is None or not isinstance(occ.shape, Rectangle):
            return
        r = occ.shape
        V.prove("the enclosing rectangle is aligned with the middle of the orientation interval", V.close(r.orientation, m, 1e-9))
        conds = []
        thetas = [m + d * f for f in (-1.0, -0.5, 0.0, 0.5, 1.0)]
        if shape_kind != "circle":
            for q in shape_extreme_points(shape):  # the angle at which a corner is farthest along an axis of the rectangle
                a = math.atan2(q[1], q[0])
                for k in (0.0, math.pi / 2, math.pi, -math.pi / 2):
                    e = (k - a + math.pi) % (2 * math.pi) - math.pi
                    if -d <= e <= d:
                        thetas.append(m + e)
        for p in centres:
            if shape_kind == "circle":
                conds.append(inside_rect(V, r, m, p, shape.radius))
                continue
            for th in thetas:
                for q in shape_extreme_points(shape):
                    qq = rot(th, q)
                    conds.append(inside_rect(V, r, m, (p[0] + qq[0], p[1] + qq[1])))
        V.prove("the occupancy encloses the shape at every admissible position and sampled admissible orientation", V.And(conds))

    return ob


for _s in ("rectangle", "circle", "polygon"):
    _mk_uncertain_orientation(_s, False)
_mk_uncertain_orientation("rectangle", True)


# ---- scenario-level queries return what the per-obstacle answers imply -----------------------------------------------------------
def _scenario(V, kinds=("static", "trajectory", "nopred", "phantom", "environment", "setbased")):
    from commonroad.scenario.scenario import Scenario, ScenarioID

    sc = Scenario(0.1, ScenarioID.from_benchmark_id("DEU_Muc-1_2_T-1", "2020a"))
    P = lambda n: (V.real(n + "_x", -B, B), V.real(n + "_y", -B, B))  # noqa: E731
    t0 = V.int("t0", 0, 5)
    ps = {k: P(k) for k in ("static", "dyn", "dyn1", "nopred", "ph", "env")}
    ps["setbased"] = P("setbased") if "setbased" in kinds else None
    if "static" in kinds:
        sc.add_objects(StaticObstacle(30, ObstacleType.PARKED_VEHICLE, Rectangle(2.0, 1.0), init_state(0, ps["static"], 0.0)))
    if "trajectory" in kinds:
        st1 = st.KSState(time_step=t0 + 1, position=np.array([ps["dyn1"][0], ps["dyn1"][1]]), orientation=0.0, velocity=1.0, steering_angle=0.0)
        sc.add_objects(DynamicObstacle(31, ObstacleType.CAR, Rectangle(2.0, 1.0), init_state(t0, ps["dyn"], 0.0),
                                       TrajectoryPrediction(Trajectory(t0 + 1, [st1]), Rectangle(2.0, 1.0))))
    if "nopred" in kinds:
        sc.add_objects(DynamicObstacle(32, ObstacleType.BICYCLE, Circle(0.5), init_state(t0 + 1, ps["nopred"], 0.0)))
    if "phantom" in kinds:
        sc.add_objects(PhantomObstacle(33, SetBasedPrediction(t0, [Occupancy(t0, Circle(1.0, np.array([ps["ph"][0], ps["ph"][1]])))])))
    if "environment" in kinds:
        sc.add_objects(EnvironmentObstacle(34, ObstacleType.BUILDING, Circle(3.0, np.array([ps["env"][0], ps["env"][1]]))))
    if "setbased" in kinds:
        # a dynamic obstacle with a set-based prediction has occupancies but no states after its initial step
        sb = ps["setbased"]
        occs = [Occupancy(t0 + 1, Rectangle(2.0, 1.0, np.array([sb[0], sb[1]]))), Occupancy(Interval(t0 + 2, t0 + 3), Circle(1.0, np.array([sb[1], sb[0]])))]
        sc.add_objects(DynamicObstacle(35, ObstacleType.PEDESTRIAN, Circle(0.5), init_state(t0, sb, 0.0), SetBasedPrediction(t0 + 1, occs)))
    return sc, t0


FS = F + ["commonroad/scenario/scenario.py:Scenario.occupancies_at_time_step", "commonroad/scenario/scenario.py:Scenario.obstacle_states_at_time_step",
          "commonroad/scenario/scenario.py:Scenario.obstacles_by_role_and_type", "commonroad/scenario/scenario.py:Scenario.obstacles_by_position_intervals"]


@obligation("C04", "scenario.occupancies-and-states", functions=FS,
            bounds="scenario with one obstacle of every role (static, trajectory, no prediction, phantom, environment) at symbolic places, symbolic initial "
                   "time step 0..5, symbolic query time 0..8, role filter None / each role")
def scenario_occ(V):
    from commonroad.scenario.obstacle import ObstacleRole

    sc, t0 = _scenario(V)
    t = V.int("t", 0, 8)
    roles = [None, ObstacleRole.STATIC, ObstacleRole.DYNAMIC, ObstacleRole.ENVIRONMENT, ObstacleRole.Phantom]
    role = roles[V.choice("role_filter", len(roles))]
    got = sc.occupancies_at_time_step(t, role)
    want = [o.occupancy_at_time(t) for o in sc.obstacles if (role is None or o.obstacle_role == role)]
    want = [w for w in want if w is not None]
    ok = len(got) == len(want)
    conds = []
    if ok:
        for g, w in zip(got, want):
            ok = ok and type(g.shape) is type(w.shape)
            conds += [V.eq(g.time_step, w.time_step), V.eq(g.shape.center[0], w.shape.center[0]), V.eq(g.shape.center[1], w.shape.center[1])]
    V.prove("occupancies_at_time_step returns exactly the per-obstacle occupancies", V.And([ok] + conds))
    states = sc.obstacle_states_at_time_step(t)
    exp = {}
    for o in sc.dynamic_obstacles:
        if o.state_at_time(t) is not None:
            exp[o.obstacle_id] = o.state_at_time(t)
    for o in sc.static_obstacles:
        exp[o.obstacle_id] = o.state_at_time(t)
    V.prove("obstacle_states_at_time_step returns exactly the per-obstacle states", set(states) == set(exp) and all(states[k] is exp[k] for k in exp))
    types = [None, ObstacleType.CAR, ObstacleType.BICYCLE, ObstacleType.BUILDING, ObstacleType.TRUCK]
    ty = types[V.choice("type_filter", len(types))]
    sel = sc.obstacles_by_role_and_type(role, ty)
    V.prove("obstacles_by_role_and_type returns exactly the obstacles of that role and type",
            sorted(o.obstacle_id for o in sel) == sorted(o.obstacle_id for o in sc.obstacles if (role is None or o.obstacle_role == role) and
                                                         (ty is None or getattr(o, "obstacle_type", None) == ty)))


def _mk_pos(name, kinds):
    @obligation("C04", f"scenario.position-intervals.{name}", functions=FS, max_paths={"quick": 6000, "thorough": 30000},
                bounds=f"scenario with obstacles {kinds}; symbolic x / y intervals, symbolic query time, role tuples: default / all four roles / each single role")
    def ob(V):
        scenario_pos(V, kinds)

    return ob


_mk_pos("all-roles", ("static", "trajectory", "nopred", "phantom", "environment"))
_mk_pos("set-based", ("static", "setbased"))


def scenario_pos(V, kinds):
    from commonroad.scenario.obstacle import ObstacleRole

    sc, t0 = _scenario(V, kinds)
    t = V.int("t", 0, 8)
    x0, y0 = V.real("ix_lo", -B, B), V.real("iy_lo", -B, B)
    ix, iy = Interval(x0, x0 + V.real("ix_len", 0, B)), Interval(y0, y0 + V.real("iy_len", 0, B))
    sets = [(ObstacleRole.DYNAMIC, ObstacleRole.STATIC), (ObstacleRole.DYNAMIC, ObstacleRole.STATIC, ObstacleRole.ENVIRONMENT, ObstacleRole.Phantom),
            (ObstacleRole.STATIC,), (ObstacleRole.DYNAMIC,), (ObstacleRole.ENVIRONMENT,), (ObstacleRole.Phantom,)]
    roles = sets[V.choice("roles", len(sets))]
    got = {o.obstacle_id for o in sc.obstacles_by_position_intervals([ix, iy], roles, t)}
    conds = []
    for o in sc.obstacles:
        if o.obstacle_role not in roles:
            conds.append(o.obstacle_id not in got)
            continue
        occ = o.occupancy_at_time(t)
        if occ is None:
            conds.append(o.obstacle_id not in got)
            continue
        c = occ.shape.center
        inside = V.And(c[0] >= ix.start, c[0] <= ix.end, c[1] >= iy.start, c[1] <= iy.end)
        conds.append(V.iff(inside, o.obstacle_id in got))
    V.prove("obstacles_by_position_intervals returns exactly the obstacles whose occupancy centre at t lies in the intervals", V.And(conds))


MUTANTS += [
    dict(name="enclosure-region-frame-sign", target="commonroad.geometry.shape:occupancy_shape_from_state",
         old="rotate_translate_local(np.array([0, 0]), -psi_d)", new="rotate_translate_local(np.array([0, 0]), psi_d)", only="uncertain.position.rectangle-in-rectangle"),
    dict(name="enclosure-forgets-region-width", target="commonroad.geometry.shape:occupancy_shape_from_state",
         old="w_enclosing = w_s + w_v + w_psi", new="w_enclosing = w_v + w_psi", only="uncertain.position.circle-in-circle"),
    dict(name="enclosure-orientation-term-dropped", target="commonroad.geometry.shape:occupancy_shape_from_state",
         old="l_enclosing = l_s + l_v + l_psi", new="l_enclosing = l_s + l_v", only="uncertain.orientation.rectangle"),
    dict(name="scenario-occupancies-ignore-role", target="commonroad.scenario.scenario:Scenario.occupancies_at_time_step",
         old="(obstacle_role is None or obstacle.obstacle_role == obstacle_role) and", new="(True) and", only="scenario.occupancies"),
    dict(name="scenario-states-skip-initial-step", target="commonroad.scenario.scenario:Scenario.obstacle_states_at_time_step",
         old="            if obstacle.state_at_time(time_step) is not None:", new="            if obstacle.state_at_time(time_step) is not None and time_step > obstacle.initial_state.time_step:",
         only="scenario.occupancies"),
    dict(name="position-interval-static-uses-y-twice", target="commonroad.scenario.scenario:Scenario.obstacles_by_position_intervals",
         old="position_intervals[1].contains(position[1])", new="position_intervals[1].contains(position[0])", only="scenario.position-intervals.all-roles"),
]

"""C13 - Benchmark ids print and parse consistently."""
import itertools
import re
import warnings

import z3

import commonroad.scenario.scenario as scen_mod
from commonroad.common import solution as sol
from commonroad.common.solution import (CommonRoadSolutionReader, CostFunction, PlanningProblemSolution, Solution,
                                        SupportedCostFunctions, VehicleModel, VehicleType)
from commonroad.scenario.scenario import ScenarioID

from harness import fixtures as fx
from symex import core, strs
from symex.api import obligation

ASSUMPTIONS = ["map names are non-empty alphanumeric strings (the constructor strips every other character; that cleaning is the "
               "identity on them), numbers are integers >= 1 rendered by str(int) as [1-9][0-9]* (contract of str/int)",
               "country codes: a symbolic index over the shipped ISO-3166 alpha-3 table plus ZAM",
               "the regex match of a printed id is computed by the real pattern on a representative instance of the printed template "
               "(tokens replaced by representative words / numerals); by the proved unambiguity the group boundaries do not "
               "depend on the representative",
               "1-3 prediction ids; vehicle / cost enumerations exhaustively (one solution), pairs for cooperative solutions"]
OUTSIDE = ["the C regex engine itself", "map names that become empty after cleaning (not valid ids)"]
STUBS = ["placeholder tokens for str()/format() of proxies", "Match stub built from the printed pieces", "z3 sequence theory, cvc5 for word equations"]
F = ["commonroad/scenario/scenario.py:ScenarioID.__init__", "commonroad/scenario/scenario.py:ScenarioID.__str__",
     "commonroad/scenario/scenario.py:ScenarioID.__eq__", "commonroad/scenario/scenario.py:ScenarioID.from_benchmark_id",
     "commonroad/scenario/scenario.py:ScenarioID.benchmark_id_pattern", "commonroad/common/solution.py:Solution.benchmark_id",
     "commonroad/common/solution.py:CommonRoadSolutionReader._parse_benchmark_id",
     "commonroad/common/solution.py:CommonRoadSolutionReader._parse_vehicle_id"]
ALNUM = z3.Plus(z3.Union(z3.Range("a", "z"), z3.Range("A", "Z"), z3.Range("0", "9")))
VERSION = "2020a"
SKELETONS = ["map", "config", "pred-scalar", "pred-list1", "pred-list2", "pred-list3"]


def install_shims():
    core.Ctx.use_cvc5_for_strings = True
    scen_mod.re = _ReShim()


class _ReShim:
    """`re` inside scenario.py: cleaning a symbolic map name that is assumed alphanumeric is the identity"""

    def __getattr__(self, n):
        return getattr(re, n)

    @staticmethod
    def sub(pattern, repl, s, *a, **k):
        if isinstance(s, str) and strs.single_token(s) is not None:
            s = strs.single_token(s)  # the rendering of a symbolic string: same cleaning as the string itself
        if isinstance(s, strs.SymStr):
            if pattern != "[^a-zA-Z0-9]" or repl != "":
                raise core.Unsupported("re.sub on a symbolic string")
            return s
        return re.sub(pattern, repl, s, *a, **k)


def countries():
    import iso3166

    return sorted(iso3166.countries_by_alpha3.keys()) + ["ZAM"]


def fields(V, tag, skeleton, discrete="few"):
    """discrete = 'fixed' (one value each), 'few' (cooperative flag, 2 countries, 2 behaviours), 'countries' (every code)"""
    cs = {"fixed": ["DEU"], "few": ["DEU", "ZAM"], "countries": countries()}[discrete]
    f = dict(cooperative=V.flag(tag + "cooperative") if discrete == "few" else (discrete == "fixed"),
             country=cs[V.choice(tag + "country", len(cs))] if len(cs) > 1 else cs[0],
             map_name=V.string(tag + "map_name", ALNUM if V.symbolic else None), map_id=V.int(tag + "map_id", 1),
             config=None, behavior=None, pred=None)
    if skeleton != "map":
        f["config"] = V.int(tag + "config", 1)
    if skeleton.startswith("pred"):
        bs = "STPI" if discrete == "few" else "T"
        f["behavior"] = bs[V.choice(tag + "behavior", len(bs))] if len(bs) > 1 else bs
        n = {"pred-scalar": 0, "pred-list1": 1, "pred-list2": 2, "pred-list3": 3}[skeleton]
        f["pred"] = V.int(tag + "pred0", 1) if n == 0 else [V.int(f"{tag}pred{i}", 1) for i in range(n)]
    return f


def make_id(f):
    return ScenarioID(f["cooperative"], f["country"], f["map_name"], f["map_id"], f["config"], f["behavior"], f["pred"], VERSION)


class _Match:
    def __init__(self, groups):
        self.g = groups

    def __getitem__(self, k):
        return self.g[k]

    def group(self, k):
        return self.g[k]


class _Pattern:
    """stands in for the compiled pattern on printed ids that contain placeholder tokens: every token is replaced by a
    representative member of its class (distinct alphanumeric words for strings, distinct numerals for integers), the
    library's real pattern is matched against that concrete string, and the representatives in the groups are mapped back
    to the tokens.  By the unambiguity obligations the group boundaries do not depend on the representative chosen."""

    def __init__(self, real):
        self.real = real

    def fullmatch(self, s):
        reps = {}
        concrete = []
        for piece in strs.pieces(s):
            if isinstance(piece, str):
                concrete.append(piece)
                continue
            rep = ("Zq%sx" % "abcdefgh"[len(reps)]) if isinstance(piece, strs.SymStr) else str(7001 + 13 * len(reps))
            reps[rep] = str(piece)
            concrete.append(rep)
        m = self.real.fullmatch("".join(concrete))
        if m is None:
            return None
        groups = {}
        for name in self.real.groupindex:
            v = m.group(name)
            if v is not None:
                for rep, tok in reps.items():
                    v = v.replace(rep, tok)
            groups[name] = v
        return _Match(groups)


def parse_back(V, f, printed):
    if not V.symbolic:
        return ScenarioID.from_benchmark_id(printed, VERSION)
    real = ScenarioID.benchmark_id_pattern
    ScenarioID.benchmark_id_pattern = _Pattern(real)
    try:
        return ScenarioID.from_benchmark_id(printed, VERSION)
    finally:
        ScenarioID.benchmark_id_pattern = real


def _mk_conformance(skeleton):
    @obligation("C13", f"scenario-id.conformance.{skeleton}", functions=F,
                bounds=f"skeleton '{skeleton}': all alphanumeric map names, all numbers >= 1; every country code of the table (skeleton "
                       "'map') / two codes, both cooperative flags, all four behaviours (others)")
    def ob(V):
        warnings.filterwarnings("ignore")
        f = fields(V, "", skeleton, "countries" if skeleton == "map" else "few")
        printed = str(make_id(f))
        if V.symbolic:
            rx = strs.regex_to_z3(ScenarioID.benchmark_id_pattern.pattern)
            V.prove("printed id is in the language of the id grammar", core.SymBool(z3.InRe(strs.term_of(printed), rx)))
        else:
            V.prove("printed id is in the language of the id grammar", ScenarioID.benchmark_id_pattern.fullmatch(printed) is not None)

    return ob


def _mk_roundtrip(skeleton):
    @obligation("C13", f"scenario-id.roundtrip.{skeleton}", functions=F, bounds=f"skeleton '{skeleton}': parse the printed id back")
    def ob(V):
        warnings.filterwarnings("ignore")
        f = fields(V, "", skeleton)
        x = make_id(f)
        printed = str(x)
        y = parse_back(V, f, printed)
        V.prove("parsed id equals the original", V.And(bool(y == x), bool(x == y)))
        V.prove("parsed id prints identically", str(y) == printed)

    return ob


for _s in SKELETONS:
    _mk_conformance(_s)
    _mk_roundtrip(_s)


CONCRETE_IDS = [(False, "DEU", "Muc", 4, 3, "T", 12), (False, "USA", "US101", 33, 2, "I", [3, 25]), (True, "ZAM", "Tjunction", 1, 110, "P", 110),
                (False, "CHN", "Sha", 10, 20, "S", [10, 2, 131]), (True, "ESP", "Mad", 123, 45, "T", [7, 70]), (False, "DEU", "A9", 2, 1, "I", 9),
                (True, "USA", "Lanker", 1, None, None, None), (False, "ITA", "Siderno", 21, None, None, None)]


@obligation("C13", "scenario-id.roundtrip.multi-digit-ids", functions=F,
            bounds="concrete ids with multi-digit map / configuration / prediction numbers and prediction lists (characters of a rendered number are "
                   "not visible to the symbolic strings, so digit-wise handling is followed on representatives): print, parse back, print again")
def roundtrip_concrete(V):
    c = CONCRETE_IDS[V.choice("id", len(CONCRETE_IDS))]
    sid = ScenarioID(c[0], c[1], c[2], c[3], c[4], c[5], c[6], VERSION)
    printed = str(sid)
    try:
        back = ScenarioID.from_benchmark_id(printed, VERSION)
    except Exception as e:  # noqa: BLE001
        V.fail("parsing a printed id failed", f"{printed}: {e!r}")
        return
    V.prove("parsing the printed id gives an equal id that prints identically", back == sid and str(back) == printed and
            (back.cooperative, back.country_id, back.map_name, back.map_id, back.configuration_id, back.obstacle_behavior) ==
            (sid.cooperative, sid.country_id, sid.map_name, sid.map_id, sid.configuration_id, sid.obstacle_behavior) and
            (back.prediction_id == sid.prediction_id))


@obligation("C13", "scenario-id.roundtrip.cooperative.every-country", functions=F, max_paths={"quick": 3000, "thorough": 3000},
            bounds="cooperative ids with configuration, every country code of the table")
def roundtrip_countries(V):
    warnings.filterwarnings("ignore")
    cs = countries()
    f = dict(cooperative=True, country=cs[V.choice("country", len(cs))], map_name=V.string("map_name", ALNUM if V.symbolic else None),
             map_id=V.int("map_id", 1), config=V.int("config", 1), behavior=None, pred=None)
    x = make_id(f)
    printed = str(x)
    y = parse_back(V, f, printed)
    V.prove("parsed id equals the original", V.And(bool(y == x), bool(x == y)))
    V.prove("parsed id prints identically", str(y) == printed)


def _mk_unambiguous(s1, s2):
    @obligation("C13", f"scenario-id.unambiguous.{s1}.{s2}", functions=F,
                bounds=f"two ids with skeletons '{s1}' / '{s2}' that print identically have identical fields (word equation)")
    def ob(V):
        warnings.filterwarnings("ignore")
        if not V.symbolic:
            V.reach("symbolic only")
            return
        fa, fb = fields(V, "a_", s1, "few" if s1 == s2 == "map" else "fixed"), fields(V, "b_", s2, "few" if s1 == s2 == "map" else "fixed")
        pa, pb = str(make_id(fa)), str(make_id(fb))
        if s1 != s2:
            V.prove("ids of different shape never print identically", core.SymBool(strs.term_of(pa) != strs.term_of(pb)))
            return
        V.assume(core.SymBool(strs.term_of(pa) == strs.term_of(pb)))
        same = [fa["cooperative"] == fb["cooperative"], fa["country"] == fb["country"], fa["map_name"] == fb["map_name"],
                V.eq(fa["map_id"], fb["map_id"]), fa["behavior"] == fb["behavior"]]
        if fa["config"] is not None:
            same.append(V.eq(fa["config"], fb["config"]))
        pa_, pb_ = fa["pred"], fb["pred"]
        if pa_ is not None:
            la, lb = (pa_ if isinstance(pa_, list) else [pa_]), (pb_ if isinstance(pb_, list) else [pb_])
            same += [V.eq(x, y) for x, y in zip(la, lb)]
        # equal renderings of integers are equal integers (contract of str/int): compare the rendered strings
        V.prove("identical print => identical pieces", V.And([core.SymBool(strs.term_of(str(x)) == strs.term_of(str(y)))
                                                              for x, y in _pairs(fa, fb)] + [fa["cooperative"] == fb["cooperative"],
                                                                                            fa["country"] == fb["country"],
                                                                                            fa["behavior"] == fb["behavior"]]))

    return ob


def _pairs(fa, fb):
    out = [(fa["map_name"], fb["map_name"]), (fa["map_id"], fb["map_id"])]
    if fa["config"] is not None:
        out.append((fa["config"], fb["config"]))
    if fa["pred"] is not None:
        la = fa["pred"] if isinstance(fa["pred"], list) else [fa["pred"]]
        lb = fb["pred"] if isinstance(fb["pred"], list) else [fb["pred"]]
        out += list(zip(la, lb))
    return out


for _a, _b in itertools.combinations_with_replacement(["map", "config", "pred-list1", "pred-list2"], 2):
    _mk_unambiguous(_a, _b)


# ---- solutions ---------------------------------------------------------------------------------------------
def pp_solution(pp_id, model, vtype, cost):
    return PlanningProblemSolution(pp_id, model, vtype, cost, fx.solution_trajectory(model.name))


def check_solution(V, sols, f):
    sid = make_id(f)
    s = Solution(sid, sols)
    bid = s.benchmark_id
    vehicle_ids, cost_ids, parsed_sid = None, None, None
    real = ScenarioID.benchmark_id_pattern
    if V.symbolic:
        ScenarioID.benchmark_id_pattern = _Pattern(real)
    try:
        vehicle_ids, cost_ids, parsed_sid = CommonRoadSolutionReader._parse_benchmark_id(bid)
    finally:
        ScenarioID.benchmark_id_pattern = real
    V.prove("one vehicle id and one cost id per planning problem", V.And(len(vehicle_ids) == len(sols), len(cost_ids) == len(sols)))
    for i, ps in enumerate(sols):
        if i < len(vehicle_ids):
            m, t = CommonRoadSolutionReader._parse_vehicle_id(vehicle_ids[i])
            V.prove(f"vehicle model and type of solution {i} parse back", V.And(m is ps.vehicle_model, t is ps.vehicle_type))
        if i < len(cost_ids):
            V.prove(f"cost function of solution {i} parses back", cost_ids[i] in CostFunction.__members__ and CostFunction[cost_ids[i]] is ps.cost_function)
    V.prove("scenario id and version parse back", V.And(bool(parsed_sid == sid), parsed_sid.scenario_version == VERSION))
    if V.symbolic:
        seps = z3.Union(*[z3.Re(ch) for ch in ":,[] "])
        anyc = z3.Star(z3.AllChar(z3.ReSort(z3.StringSort())))
        has_sep = z3.InRe(strs.term_of(str(sid)), z3.Concat(anyc, seps, anyc))
        V.prove("no separator of the solution id occurs inside the scenario id", core.SymBool(z3.Not(has_sep)))


@obligation("C13", "solution.single", functions=F, max_paths={"quick": 4000, "thorough": 4000},
            bounds="every (vehicle model, vehicle type, admissible cost function); scenario id with configuration and prediction")
def solution_single(V):
    warnings.filterwarnings("ignore")
    models, types = list(VehicleModel), list(VehicleType)
    model = models[V.choice("model", len(models))]
    vtype = types[V.choice("type", len(types))]
    costs = SupportedCostFunctions[model.name].value
    cost = costs[V.choice("cost", len(costs))]
    check_solution(V, [pp_solution(1, model, vtype, cost)], fields(V, "", "pred-list2", "fixed"))


@obligation("C13", "solution.cooperative", functions=F, max_paths={"quick": 4000, "thorough": 4000},
            bounds="two planning problems: every pair of vehicle models (types and costs from a symbolic choice), cooperative scenario id")
def solution_coop(V):
    warnings.filterwarnings("ignore")
    models, types = list(VehicleModel), list(VehicleType)
    sols = []
    for i in (0, 1):
        model = models[V.choice(f"model{i}", len(models))]
        vtype = types[V.choice(f"type{i}", 2) * 2 + i]
        costs = SupportedCostFunctions[model.name].value
        sols.append(pp_solution(i + 1, model, vtype, costs[V.choice(f"cost{i}", 2)]))
    check_solution(V, sols, fields(V, "", "config", "fixed"))


@obligation("C13", "solution.cooperative.document-pairing", functions=F + ["commonroad/common/solution.py:CommonRoadSolutionWriter._serialize_solution",
                                                                          "commonroad/common/solution.py:CommonRoadSolutionReader._parse_solution"],
            max_paths={"quick": 4000, "thorough": 4000},
            bounds="two planning problems of the same vehicle model (every model), different vehicle types and (where the model admits two) different "
                   "cost functions, planning-problem ids ascending or descending: the written document read back pairs every planning problem with "
                   "the vehicle and cost ids the benchmark id lists for it")
def solution_document_pairing(V):
    warnings.filterwarnings("ignore")
    models, types = list(VehicleModel), list(VehicleType)
    model = models[V.choice("model", len(models))]
    costs = SupportedCostFunctions[model.name].value
    ids = [(1, 2), (7, 2)][V.choice("ids_descending", 2)]
    sols = [pp_solution(ids[0], model, types[V.choice("type0", 2)], costs[0]), pp_solution(ids[1], model, types[2 + V.choice("type1", 2)], costs[-1])]
    s = Solution(make_id(fields(V, "", "config", "fixed")), sols)
    real = ScenarioID.benchmark_id_pattern
    if V.symbolic:
        ScenarioID.benchmark_id_pattern = _Pattern(real)
    try:
        back = CommonRoadSolutionReader._parse_solution(sol.CommonRoadSolutionWriter(s)._solution_root)
    finally:
        ScenarioID.benchmark_id_pattern = real
    V.prove("the scenario id reads back", bool(back.scenario_id == s.scenario_id))
    expected = {p.planning_problem_id: (p.vehicle_model, p.vehicle_type, p.cost_function, p.trajectory_type) for p in sols}
    got = {p.planning_problem_id: (p.vehicle_model, p.vehicle_type, p.cost_function, p.trajectory_type) for p in back.planning_problem_solutions}
    V.prove("every planning problem keeps its vehicle model, vehicle type, cost function and trajectory type", got == expected)
    V.prove("the ids the benchmark id lists are in the order of the planning-problem solutions read back",
            [(p.vehicle_id, p.cost_function.name) for p in back.planning_problem_solutions] == list(zip(back.vehicle_ids, back.cost_ids)))

_SID = "commonroad.scenario.scenario:ScenarioID."
MUTANTS = [
    dict(name="print-drops-map-id-separator", target=_SID + "__str__", old='f"{self.map_name}-{self.map_id}"', new='f"{self.map_name}{self.map_id}"',
         only="scenario-id.conformance.config"),
    dict(name="print-underscore-prediction", target=_SID + "__str__", old='prediction = "-".join(', new='prediction = "_".join(', only="scenario-id.conformance.pred-list2"),
    dict(name="parse-drops-last-prediction-id", target=_SID + "from_benchmark_id", old='prediction_id.split("-")[1:]]', new='prediction_id.split("-")[1:-1] or prediction_id.split("-")[1:]]',
         only="scenario-id.roundtrip.pred-list"),
    dict(name="parse-configuration-as-map-id", target=_SID + "from_benchmark_id", old='configuration_id = int(match["configuration_id"])', new='configuration_id = int(match["map_id"])',
         only="scenario-id.roundtrip.config"),
    dict(name="cooperative-prefix-lost", target=_SID + "__str__", old="if self.cooperative is True:", new="if self.cooperative is True and self.obstacle_behavior is None:",
         only="scenario-id.roundtrip.pred-scalar"),
    dict(name="solution-costs-unbracketed", target="commonroad.common.solution:Solution.benchmark_id", old='"[%s]" % ",".join(cost_ids)', new='",".join(cost_ids[:1])',
         only="solution.cooperative"),
    dict(name="vehicle-id-type-off", target="commonroad.common.solution:CommonRoadSolutionReader._parse_vehicle_id",
         old="VehicleType(int(vehicle_id[-1]))", new="VehicleType(min(int(vehicle_id[-1]), 3))", only="solution.single"),
]

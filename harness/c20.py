"""C20 - Lanelet arc-length geometry and successor-route enumeration are sound."""
import warnings

import numpy as np

from commonroad.scenario.lanelet import Lanelet, LaneletNetwork

from symex.api import obligation

B = 1000.0
ASSUMPTIONS = ["polylines of 3 vertices per boundary, |coordinates| <= 1000, consecutive centre vertices at least 1e-3 apart",
               "route graphs on 3 (quick) / 4 (thorough) lanelets with symbolic adjacency, symbolic lanelet lengths in [0.1, 100] "
               "and a symbolic range limit; no lanelet is its own successor",
               "sqrt(e) is a fresh non-negative real r with r*r = e, shared between code and oracle"]
OUTSIDE = ["polylines with more than 3 vertices", "graphs with more than 4 lanelets", "IEEE rounding", "interpolation and merging of 3-D polylines (their cumulative distance is covered)"]
STUBS = ["real numpy diff/square/sum/cumsum/searchsorted on object arrays; np.empty as object array", "shapely-lite behind Lanelet.polygon"]
F = ["commonroad/scenario/lanelet.py:Lanelet.distance", "commonroad/scenario/lanelet.py:Lanelet._compute_polyline_cumsum_dist",
     "commonroad/scenario/lanelet.py:Lanelet.interpolate_position", "commonroad/scenario/lanelet.py:Lanelet.merge_lanelets",
     "commonroad/scenario/lanelet.py:Lanelet.find_lanelet_successors_in_range",
     "commonroad/scenario/lanelet.py:Lanelet.find_lanelet_predecessors_in_range"]


def pts(V, name, n):
    return [(V.real(f"{name}{i}x", -B, B), V.real(f"{name}{i}y", -B, B)) for i in range(n)]


def arr(ps):
    return np.array([[p[0], p[1]] for p in ps])


def seglen(V, a, b):
    return V.sqrt((b[0] - a[0]) * (b[0] - a[0]) + (b[1] - a[1]) * (b[1] - a[1]))


def curved_lanelet(V, n=3):
    c, l, r = pts(V, "c", n), pts(V, "l", n), pts(V, "r", n)
    for i in range(n - 1):
        dx, dy = c[i + 1][0] - c[i][0], c[i + 1][1] - c[i][1]
        V.assume(dx * dx + dy * dy >= 1e-6, "consecutive centre vertices distinct")
    return Lanelet(arr(l), arr(c), arr(r), 1), c, l, r


@obligation("C20", "distance", functions=F, bounds="3 symbolic vertices per polyline")
def distance(V):
    la, c, l, r = curved_lanelet(V)
    d = la.distance
    lens = [seglen(V, c[i], c[i + 1]) for i in range(2)]
    V.prove("starts at 0", V.eq(d[0], 0.0))
    V.prove("non-decreasing", V.And(d[0] <= d[1], d[1] <= d[2]))
    V.prove("ends at the centre line's length", V.close(d[2], lens[0] + lens[1], 1e-9))
    V.prove("second entry is the first segment length", V.close(d[1], lens[0], 1e-9))
    V.prove("as many entries as vertices", len(d) == 3)


@obligation("C20", "distance.3d", functions=F, bounds="3 vertices per polyline with a symbolic height each (a ramp): the centre line's length counts the height")
def distance_3d(V):
    n = 3
    c, l, r = pts(V, "c", n), pts(V, "l", n), pts(V, "r", n)
    z = [V.real(f"z{i}", -50, 50) for i in range(n)]
    for i in range(n - 1):
        dx, dy = c[i + 1][0] - c[i][0], c[i + 1][1] - c[i][1]
        V.assume(dx * dx + dy * dy >= 1e-6, "consecutive centre vertices distinct")
    a3 = lambda ps: np.array([[p[0], p[1], z[i]] for i, p in enumerate(ps)])  # noqa: E731
    la = Lanelet(a3(l), a3(c), a3(r), 1)
    d = la.distance
    lens = [V.sqrt((c[i + 1][0] - c[i][0]) * (c[i + 1][0] - c[i][0]) + (c[i + 1][1] - c[i][1]) * (c[i + 1][1] - c[i][1]) +
                   (z[i + 1] - z[i]) * (z[i + 1] - z[i])) for i in range(2)]
    V.prove("3-D: starts at 0 and is non-decreasing", V.And(V.eq(d[0], 0.0), d[0] <= d[1], d[1] <= d[2]))
    V.prove("3-D: second entry is the first segment length", V.close(d[1], lens[0], 1e-9))
    V.prove("3-D: ends at the centre line's length", V.close(d[2], lens[0] + lens[1], 1e-9))


@obligation("C20", "interpolate", functions=F, bounds="3 symbolic vertices per polyline; arc length anywhere in [0, length]")
def interpolate(V):
    la, c, l, r = curved_lanelet(V)
    lens = [seglen(V, c[i], c[i + 1]) for i in range(2)]
    s = V.real("s", 0.0)
    V.assume(s <= lens[0] + lens[1])
    pc, pr, pl, idx = la.interpolate_position(s)
    V.prove("segment index valid", V.And(0 <= idx, idx <= 1))
    if not (0 <= idx <= 1):
        return
    d0 = 0.0 if idx == 0 else lens[0]
    ln = lens[idx]
    off = s - d0
    V.prove("arc length falls into the reported segment", V.And(off >= -1e-9, off <= ln + 1e-9))
    for name, got, poly in (("centre", pc, c), ("right", pr, r), ("left", pl, l)):
        a, b = poly[idx], poly[idx + 1]
        # got = a + (off/ln) (b - a)   <=>   (got - a) * ln = off * (b - a)
        V.prove(f"{name} point at the same segment parameter",
                V.And(V.close((got[0] - a[0]) * ln, off * (b[0] - a[0]), 1e-6), V.close((got[1] - a[1]) * ln, off * (b[1] - a[1]), 1e-6)))


@obligation("C20", "interpolate.at-vertices", functions=F, bounds="arc length exactly 0, at the middle vertex, at the full length")
def interpolate_vertices(V):
    la, c, l, r = curved_lanelet(V)
    lens = [seglen(V, c[i], c[i + 1]) for i in range(2)]
    k = V.choice("where", 3)
    s = [0.0, lens[0], lens[0] + lens[1]][k]
    pc, pr, pl, idx = la.interpolate_position(s)
    for name, got, poly in (("centre", pc, c), ("right", pr, r), ("left", pl, l)):
        V.prove(f"{name}: vertex returned", V.And(V.close(got[0], poly[k][0], 1e-6), V.close(got[1], poly[k][1], 1e-6)))


@obligation("C20", "merge", functions=F, bounds="two lanelets of 2 vertices per boundary, the second starts where the first ends")
def merge(V):
    warnings.filterwarnings("ignore")
    c, l, r = pts(V, "c", 3), pts(V, "l", 3), pts(V, "r", 3)
    for i in range(2):
        dx, dy = c[i + 1][0] - c[i][0], c[i + 1][1] - c[i][1]
        V.assume(dx * dx + dy * dy >= 1e-6)
    first = Lanelet(arr(l[:2]), arr(c[:2]), arr(r[:2]), 1, successor=[2])
    second = Lanelet(arr(l[1:]), arr(c[1:]), arr(r[1:]), 2, predecessor=[1])
    order = V.choice("argument_order", 2)
    m = Lanelet.merge_lanelets(first, second) if order == 0 else Lanelet.merge_lanelets(second, first)
    for name, got, poly in (("left", m.left_vertices, l), ("centre", m.center_vertices, c), ("right", m.right_vertices, r)):
        V.prove(f"merged {name} boundary has the joint once", len(got) == 3)
        if len(got) == 3:
            V.prove(f"merged {name} boundary is the concatenation",
                    V.And([V.And(V.eq(got[i][0], poly[i][0]), V.eq(got[i][1], poly[i][1])) for i in range(3)]))
    V.prove("merged length is the sum of the parts", V.close(m.distance[-1], first.distance[-1] + second.distance[-1], 1e-9))
    V.prove("merged lanelet keeps the outer relations", V.And(m.predecessor == first.predecessor, m.successor == second.successor))


CHAIN_EDGES = [(1, 2), (2, 3), (3, 4), (4, 2), (3, 1), (1, 3)]


def _routes(V, n, forward, chain=False):
    warnings.filterwarnings("ignore")
    ids = list(range(1, n + 1))
    if chain:
        succ = {i: [j for j in ids if (i, j) in CHAIN_EDGES and V.flag(f"edge.{i}.{j}")] for i in ids}
    else:
        succ = {i: [j for j in ids if j != i and V.flag(f"edge.{i}.{j}")] for i in ids}
    lens = {i: V.real(f"len{i}", 0.1, 100.0) for i in ids}
    rng = V.real("range", 0.0, 400.0)
    net = LaneletNetwork()
    for i in ids:
        x = lens[i]
        left, center, right = np.array([[0.0, 1.0], [x, 1.0]]), np.array([[0.0, 0.0], [x, 0.0]]), np.array([[0.0, -1.0], [x, -1.0]])
        pred = [j for j in ids if i in succ[j]]
        kw = dict(successor=list(succ[i]), predecessor=pred) if forward else dict(successor=pred, predecessor=list(succ[i]))
        net.add_lanelet(Lanelet(left, center, right, i, **kw), rtree=False)
    start = net.find_lanelet_by_id(1)
    paths = start.find_lanelet_successors_in_range(net, rng) if forward else start.find_lanelet_predecessors_in_range(net, rng)
    V.reach("terminated")
    direct = succ[1]
    ok_chain, ok_start, ok_loop, ok_len = True, True, True, []
    for p in paths:
        if not p or p[0] not in direct:
            ok_start = False
        if len(set(p)) != len(p) or 1 in p:
            ok_loop = False
        for a, b in zip(p, p[1:]):
            if b not in succ[a]:
                ok_chain = False
        acc = 0.0
        for j in range(len(p) - 1):
            acc = acc + lens[p[j]]
            ok_len.append(acc < rng)  # extended past node j only while the accumulated length is below the range
    V.prove("every route is a chain of links", ok_chain)
    V.prove("every route starts at a direct neighbour", ok_start)
    V.prove("routes are loop-free and avoid the start lanelet", ok_loop)
    V.prove("every direct neighbour heads a route", all(any(p and p[0] == d for p in paths) for d in direct))
    V.prove("routes are extended only while the accumulated length is below the range", V.And(ok_len) if ok_len else True)


def _mk_routes(n, forward, tier):
    @obligation("C20", f"routes.{'successors' if forward else 'predecessors'}.n{n}", tier=tier, functions=F,
                max_paths={"quick": 4000, "thorough": 100000},
                bounds=f"all directed graphs on {n} lanelets (symbolic adjacency), symbolic lengths and range limit")
    def ob(V):
        _routes(V, n, forward)

    return ob


def _mk_chain(forward):
    @obligation("C20", f"routes.{'successors' if forward else 'predecessors'}.chain4", functions=F, max_paths={"quick": 6000, "thorough": 6000},
                bounds="graphs on 4 lanelets whose edges are a symbolic subset of 1>2>3>4, 4>2, 3>1, 1>3 (long chains and "
                       "loops); symbolic lengths and range limit")
    def ob(V):
        _routes(V, 4, forward, chain=True)

    return ob


_mk_chain(True)
_mk_chain(False)
_mk_routes(3, True, "quick")
_mk_routes(3, False, "quick")
_mk_routes(4, True, "thorough")
_mk_routes(4, False, "thorough")

_L = "commonroad.scenario.lanelet:Lanelet."
MUTANTS = [
    dict(name="manhattan-segments", target=_L + "_compute_polyline_cumsum_dist", old="np.sqrt((np.square(d_tmp)).sum(axis=1))",
         new="np.abs(d_tmp).sum(axis=1)", only="distance"),
    dict(name="interpolate-right-uses-left", target=_L + "interpolate_position",
         old="(1 - r) * self._right_vertices[idx] + r * self._right_vertices[idx + 1]",
         new="(1 - r) * self._right_vertices[idx] + r * self._left_vertices[idx + 1]", only="interpolate"),
    dict(name="interpolate-searchsorted-right", target=_L + "interpolate_position",
         old="np.searchsorted(self.distance, distance) - 1", new='np.searchsorted(self.distance, distance, side="right") - 1', only="interpolate"),
    dict(name="merge-joint-twice", target=_L + "merge_lanelets", old="            idx = 1\n", new="            idx = 0\n", only="merge"),
    dict(name="merge-centre-repeats-first-vertex", target=_L + "merge_lanelets",
         old="center_vertices = np.concatenate((pred.center_vertices, suc.center_vertices[idx:]))",
         new="center_vertices = np.concatenate((pred.center_vertices[:1], pred.center_vertices[:1], suc.center_vertices[idx:]))", only="merge"),
    dict(name="routes-start-revisited", target=_L + "find_lanelet_successors_in_range",
         old="if s in p or s == self.lanelet_id or le >= max_length:", new="if s in p or le >= max_length:", only="routes.succ"),
    dict(name="routes-extend-at-limit", target=_L + "find_lanelet_successors_in_range",
         old="if s in p or s == self.lanelet_id or le >= max_length:", new="if s in p or s == self.lanelet_id or le > max_length:", only="routes.succ"),
    dict(name="pred-routes-loop", target=_L + "find_lanelet_predecessors_in_range",
         old="if pred in p or pred == self.lanelet_id or le >= max_length:", new="if pred == self.lanelet_id or le >= max_length:", only="routes.pred"),
]

"""C15 - A file writer's output depends only on its own inputs.

Histories of writer constructions and write calls are explored exhaustively up to a length bound (every step is a solver-
decided fork); the decimal precisions of the two writers are symbolic integers in 1..12 and every numeric leaf of the scenario is
symbolic.  After every write the content that reached the file is compared, leaf by leaf, with the content a freshly and
identically constructed writer produces on its own: equality of the number texts is a solver query over all leaf values and
both precisions."""
import os
import re
import shutil
import tempfile
import warnings

import commonroad.common.writer.file_writer_interface as wi
import commonroad.common.writer.file_writer_xml as wr
from commonroad.common.file_writer import CommonRoadFileWriter
from commonroad.common.util import FileFormat
from commonroad.common.writer.file_writer_interface import OverwriteExistingFile
from commonroad.planning.planning_problem import PlanningProblemSet
from commonroad.scenario.scenario import Location, Tag

import commonroad.common.writer.file_writer_protobuf as wp

from harness import fixtures as fx
from harness import xmlrt
from symex import dom, fmt, pbstub, strs
from symex.api import obligation
from symex.core import SymBool, SymInt

ASSUMPTIONS = [
    "a history is a sequence of at most N steps (N = 3 quick, 4 thorough), each one of: construct writer A (XML), construct "
    "writer B (XML or protobuf), A.write_to_file, A.write_scenario_to_file, B.write_to_file, B.write_scenario_to_file; A and B "
    "have different authors / affiliations / sources / tags / locations and independent symbolic precisions in 1..12",
    "the content of a write is the element tree handed to ElementTree.write (DOM passthrough) with the date attribute removed; "
    "two number texts are equal iff they were produced by the same formatting rule from equal values with equal digit counts "
    "(if the digit counts may differ the solver is asked for a value whose two numerals denote different numbers)",
    "the reference content of a writer is what the real node builders produce in a history of their own with the process-wide "
    "precision forced to the writer's own value",
    "overwrite policy: real files in a scratch directory, concrete scenario, every combination of format x method x mode x "
    "file-exists explored",
]
OUTSIDE = ["lxml serialisation", "OverwriteExistingFile.ASK_USER_INPUT (interactive)", "the protobuf wire format (the message handed to file.write is compared; concrete replays compare the parsed bytes without the time stamp)",
           "more than two writers"]
STUBS = ["DOM passthrough tree", "number-formatting contract", "protobuf message stubs; capture of the bytes handed to the output file"]
F = ["commonroad/common/writer/file_writer_interface.py:FileWriter.__init__", "commonroad/common/writer/file_writer_interface.py:FileWriter._handle_file_path",
     "commonroad/common/writer/file_writer_xml.py:XMLFileWriter.write_to_file", "commonroad/common/writer/file_writer_xml.py:XMLFileWriter.write_scenario_to_file",
     "commonroad/common/writer/file_writer_xml.py:float_to_str", "commonroad/common/writer/file_writer_xml.py:*XMLNode.*",
     "commonroad/common/file_writer.py:CommonRoadFileWriter", "commonroad/common/writer/file_writer_protobuf.py:ProtobufFileWriter.write_to_file"]

PB_WRITES = []  # (file name, what the protobuf writer handed to file.write)


class _CapturingFile:
    def __init__(self, name):
        self.name = name

    def write(self, data):
        PB_WRITES.append((self.name, data))

    def __enter__(self):
        return self

    def __exit__(self, *a):
        return False


def _open(name, mode="r", *a, **k):
    import builtins

    if "w" in mode and "b" in mode and str(name).startswith(tempfile.gettempdir()):
        return _CapturingFile(name)
    return builtins.open(name, mode, *a, **k)


def install_shims():
    """symbolic runs: the XML writer gets the DOM passthrough, the protobuf writer the message stubs, and the bytes it would write
    to its output file are captured as the message they serialise (I/O boundary)"""
    xmlrt.install_shims()
    pbstub.install(wp)
    wp.open = _open


def pb_plain(d):
    if isinstance(d, dict):
        return tuple((k, pb_plain(v)) for k, v in sorted(d.items()) if k != "date")
    if isinstance(d, (list, tuple)):
        return tuple(pb_plain(x) for x in d)
    return d


def pb_content_concrete(data):
    """a protobuf file without its time stamp (year .. minute), in deterministic serialisation"""
    import importlib

    m = importlib.import_module("commonroad.scenario_definition.protobuf_format.generated_scripts.commonroad_pb2").CommonRoad()
    m.ParseFromString(data)
    m.information.ClearField("date")
    return m.SerializePartialToString(deterministic=True)


def plain_eq(V, a, b, conds):
    if isinstance(a, tuple) or isinstance(b, tuple):
        if not (isinstance(a, tuple) and isinstance(b, tuple) and len(a) == len(b)):
            conds.append(False)
            return
        for x, y in zip(a, b):
            plain_eq(V, x, y, conds)
            if conds and conds[-1] is False:
                return
        return
    from symex.core import Sym

    conds.append(V.eq(a, b) if isinstance(a, Sym) or isinstance(b, Sym) else (type(a) is type(b) and a == b))


ARGS = {"A": ("author A", "affiliation A", "source A", {Tag.URBAN}), "B": ("author B", "affiliation B", "source B", {Tag.HIGHWAY, Tag.SIMULATED})}
DATE = re.compile(rb'date="[^"]*"')


# ---- content of a write ---------------------------------------------------------------------------------------
def strip_date(node):
    tag, attrib, text, kids = node
    return tag, tuple((k, v) for k, v in attrib if k != "date"), text, kids


def content_symbolic():
    """snapshot of the tree handed to the last ElementTree.write call"""
    return strip_date(dom.dump_structure(dom.WRITES[-1][1]))


def content_concrete(path):
    with open(path, "rb") as f:
        return DATE.sub(b"", f.read())


def leaf_eq(a, b):
    """condition (bool / SymBool) under which two text / attribute values are the same characters"""
    if a is None or b is None:
        return a is b
    if isinstance(a, str) and isinstance(b, str):
        if a == b:
            return True
        pa, pb = strs.pieces(a), strs.pieces(b)
        if len(pa) != len(pb):
            return False
        conds = []
        for x, y in zip(pa, pb):
            if isinstance(x, str) or isinstance(y, str):
                if not (isinstance(x, str) and isinstance(y, str) and x == y):
                    return False
            else:
                conds.append(x == y)
        return _all(conds)
    if type(a) is not type(b):
        return False
    if isinstance(a, fmt.SymBoolText):
        return a.lowered == b.lowered and (a.b == b.b)
    if isinstance(a, fmt.SymDec):
        return a.x == b.x
    if isinstance(a, fmt.SymNumText):
        if a.kind != b.kind:
            return False
        same_x = a.x == b.x
        if a.kind == "exact":
            return same_x
        same_d = a.d == b.d
        if isinstance(same_d, SymBool):
            same_d = bool(same_d)  # fork only if the two digit counts can differ
        if same_d:
            return same_x
        return _all([same_x, a.value == b.value])  # different digit counts: do the two numerals denote the same number?
    return a == b


def _all(conds):
    out = True
    for c in conds:
        if c is False:
            return False
        if c is True:
            continue
        out = c if out is True else (out & c)
    return out


def tree_eq(a, b):
    """list of conditions for two snapshots to be the same document"""
    if a[0] != b[0] or len(a[1]) != len(b[1]) or len(a[3]) != len(b[3]) or [k for k, _ in a[1]] != [k for k, _ in b[1]]:
        return [False]
    conds = [leaf_eq(a[2], b[2])] + [leaf_eq(x[1], y[1]) for x, y in zip(a[1], b[1])]
    for x, y in zip(a[3], b[3]):
        conds += tree_eq(x, y)
        if conds and conds[-1] is False:
            break
    return conds


# ---- writers ---------------------------------------------------------------------------------------------------
class World:
    def __init__(self, V, sc, pps, loc):
        self.V, self.sc, self.pps = V, sc, pps
        self.tmp = tempfile.mkdtemp(prefix="c15_")
        self.loc = {"A": loc, "B": Location(geo_name_id=2867714, gps_latitude=48.0, gps_longitude=11.5)}
        self.n = 0

    def close(self):
        shutil.rmtree(self.tmp, ignore_errors=True)

    def new_writer(self, key, fmt_, prec):
        a = ARGS[key]
        return CommonRoadFileWriter(self.sc, self.pps, a[0], a[1], a[2], a[3], self.loc[key], prec, fmt_)

    def write(self, w, method):
        """calls the write method with a fresh file name; returns the content that reached the file"""
        self.n += 1
        path = os.path.join(self.tmp, f"out{self.n}.xml")
        n_before, p_before = len(dom.WRITES), len(PB_WRITES)
        getattr(w, method)(path, OverwriteExistingFile.ALWAYS)
        if w._file_format is FileFormat.PROTOBUF:
            if self.V.symbolic:
                if len(PB_WRITES) != p_before + 1:
                    return None
                return pb_plain(pbstub.dump(PB_WRITES[-1][1].msg))
            return pb_content_concrete(open(path, "rb").read()) if os.path.isfile(path) else None
        if self.V.symbolic:
            if len(dom.WRITES) != n_before + 1:
                return None
            return content_symbolic()
        return content_concrete(path) if os.path.isfile(path) else None

    def reference_pb(self, key, prec, method):
        """the message a protobuf writer with these arguments has to write"""
        keep = wi.precision.decimals
        try:
            w = self.new_writer(key, FileFormat.PROTOBUF, prec)._file_writer
            w._commonroad_msg = wp.commonroad_pb2.CommonRoad()
            w._write_header()
            w._add_all_objects_from_scenario()
            if method == "write_to_file":
                w._add_all_planning_problems_from_planning_problem_set()
            if self.V.symbolic:
                return pb_plain(pbstub.dump(w._commonroad_msg))
            return pb_content_concrete(w._commonroad_msg.SerializeToString())
        finally:
            wi.precision.decimals = keep

    def reference(self, key, prec, method):
        """what a writer with these arguments has to produce: the real node builders run in a history of their own with the
        process-wide precision forced to the writer's own value (so the reference does not depend on how the writer stores
        or restores its precision)"""
        keep = wi.precision.decimals
        try:
            w = self.new_writer(key, FileFormat.XML, prec)._file_writer
            w._root_node = wr.etree.Element("commonRoad")
            wi.precision.decimals = prec
            w._write_header()
            w._add_all_objects_from_scenario()
            if method == "write_to_file":
                w._add_all_planning_problems_from_planning_problem_set()
            self.n += 1
            path = os.path.join(self.tmp, f"ref{self.n}.xml")
            wr.etree.ElementTree(w._root_node).write(path, pretty_print=True, xml_declaration=True, encoding="utf-8")
            return content_symbolic() if self.V.symbolic else content_concrete(path)
        finally:
            wi.precision.decimals = keep


class HistoryOnly:
    """the skeleton's own discrete alternatives (obstacle type, flags) are pinned to their first value: the forks of these
    obligations are the steps of the history"""

    def __init__(self, V):
        self._V = V

    def __getattr__(self, name):
        return getattr(self._V, name)

    def choice(self, name, n):
        return 0

    def flag(self, name):
        return False


OPS = ["construct A (XML)", "construct B (XML)", "construct B (protobuf)", "A.write_to_file", "A.write_scenario_to_file", "B.write_to_file",
       "B.write_scenario_to_file"]


def _history(name, regime, steps, tier):
    @obligation("C15", f"history.{name}.{regime}.{steps}-steps", tier=tier, functions=F, max_paths={"quick": 4000, "thorough": 60000},
                bounds=f"skeleton '{name}' ({regime} magnitudes, all numeric leaves symbolic), every history of {steps} steps over two writers, "
                       f"both decimal precisions symbolic in 1..12")
    def ob(V):
        warnings.filterwarnings("ignore")
        xmlrt.REGIME[0] = regime
        sc, pps, _check, loc = xmlrt.build(HistoryOnly(V), name)
        if not pps.planning_problem_dict:
            # write_to_file and write_scenario_to_file must differ in content: every history scenario has a planning problem
            from commonroad.common.util import Interval
            from commonroad.planning.goal import GoalRegion
            from commonroad.planning.planning_problem import PlanningProblem
            from commonroad.scenario import state as st_

            # (all float leaves symbolic: a concrete float would be cut with a symbolic precision, which forks over its 12 values)
            pps.add_planning_problem(PlanningProblem(999, xmlrt.initial_state(V, "pp_init", 0), GoalRegion([st_.CustomState(time_step=Interval(1, 5))])))
        pb_expressible = not name.endswith(".KST")
        prec = {"A": V.int("precision_A", 1, 12), "B": V.int("precision_B", 1, 12)}
        world = World(V, sc, pps, loc)
        try:
            ref = {(k, m): world.reference(k, prec[k], m) for k in "AB" for m in ("write_to_file", "write_scenario_to_file")}
            ref_pb = {m: world.reference_pb("B", prec["B"], m) for m in ("write_to_file", "write_scenario_to_file")} if pb_expressible else {}
            wi.precision.decimals = 4  # the module default: the history starts in a fresh process state
            writers = {}
            for step in range(steps):
                op = V.choice(f"op_{step}", len(OPS))
                if op <= 2:
                    key = "A" if op == 0 else "B"
                    writers[key] = world.new_writer(key, FileFormat.PROTOBUF if op == 2 else FileFormat.XML, prec[key])
                    continue
                key = "A" if op in (3, 4) else "B"
                method = "write_to_file" if op in (3, 5) else "write_scenario_to_file"
                w = writers.get(key)
                if w is None:
                    return  # not a history: the writer does not exist
                is_pb = w._file_format is FileFormat.PROTOBUF
                if is_pb and not pb_expressible:
                    return
                got = world.write(w, method)
                want = ref_pb[method] if is_pb else ref[(key, method)]
                label = f"step {step + 1}: the content written equals what a fresh identical writer writes"
                if got is None or want is None:
                    V.prove(label, False)
                elif V.symbolic and is_pb:
                    conds = []
                    plain_eq(V, got, want, conds)
                    V.prove(label, V.And(conds))
                elif V.symbolic:
                    V.prove(label, V.And(tree_eq(got, want)))
                else:
                    V.prove(label, got == want)
        finally:
            world.close()

    return ob


for _n, _r in (("static.rectangle", "normal"), ("static.circle", "tiny"), ("dynamic.trajectory.KS", "tiny")):
    _history(_n, _r, 3, "quick")
# (skeletons with many discrete alternatives of their own multiply the histories: they get 2 steps, the light ones 4)
for _n, _r in (("planning.rectangle", "normal"), ("lanelets", "normal"), ("dynamic.setbased-phantom-environment", "normal"), ("signs-lights", "normal"),
               ("static.polygon", "tiny")):
    _history(_n, _r, 2, "thorough")
for _n, _r in (("static.rectangle", "normal"), ("static.circle", "tiny"), ("dynamic.trajectory.KS", "normal")):
    _history(_n, _r, 4, "thorough")


@obligation("C15", "overwrite-policy", functions=F,
            bounds="concrete scenario; format in {XML, protobuf} x method in {write_to_file, write_scenario_to_file} x mode in {ALWAYS, SKIP} x "
                   "target file exists or not x a second writer of the other format / precision constructed in between or not")
def overwrite_policy(V):
    import lxml.etree

    warnings.filterwarnings("ignore")
    sc = xmlrt.base_scenario()
    sc.add_objects([fx.straight_lanelet(1), fx.static_obstacle(10, 3.25, 1.0625)])
    pps = PlanningProblemSet()
    is_pb = V.choice("format", 2) == 1
    method = ("write_to_file", "write_scenario_to_file")[V.choice("method", 2)]
    mode = (OverwriteExistingFile.ALWAYS, OverwriteExistingFile.SKIP)[V.choice("mode", 2)]
    exists = V.choice("file_exists", 2) == 1
    other = V.choice("other_writer_in_between", 2) == 1
    default_name = V.choice("file_name", 2) == 1  # explicit path / None (name derived from the scenario id)
    ff = FileFormat.PROTOBUF if is_pb else FileFormat.XML
    tmp = tempfile.mkdtemp(prefix="c15_")
    import builtins

    keep_etree = wr.etree
    wr.etree = lxml.etree  # real files are wanted here: real lxml, real google.protobuf, real open()
    keep_pb = {k: v for k, v in vars(wp).items() if isinstance(v, pbstub.StubModule)}
    for k, v in keep_pb.items():
        setattr(wp, k, v._real)
    keep_open = wp.__dict__.get("open")
    wp.open = builtins.open
    try:
        def content(path):
            return content_concrete(path) if not is_pb else pb_content_concrete(open(path, "rb").read())

        a = ARGS["A"]
        ref_path = os.path.join(tmp, "ref")
        getattr(CommonRoadFileWriter(sc, pps, a[0], a[1], a[2], a[3], None, 3, ff), method)(ref_path, OverwriteExistingFile.ALWAYS)
        want = content(ref_path)
        wi.precision.decimals = 4
        w = CommonRoadFileWriter(sc, pps, a[0], a[1], a[2], a[3], None, 3, ff)
        if other:
            CommonRoadFileWriter(sc, pps, "x", "y", "z", {Tag.URBAN}, None, 9, FileFormat.XML if is_pb else FileFormat.PROTOBUF)
        sentinel = b"<untouched/>\n"
        if default_name:
            # no file name given: the writer derives one from the scenario id in the working directory; every name it could
            # derive exists beforehand (or none does)
            work = os.path.join(tmp, "cwd")
            os.makedirs(work)
            candidates = [os.path.join(work, str(sc.scenario_id) + sfx) for sfx in ("", ".xml", ".pb")]
            stamps = {}
            if exists:
                for c in candidates:
                    with open(c, "wb") as f:
                        f.write(sentinel)
                    stamps[c] = os.stat(c).st_mtime_ns
            here = os.getcwd()
            os.chdir(work)
            try:
                getattr(w, method)(None, mode)
            finally:
                os.chdir(here)
            if exists and mode is OverwriteExistingFile.SKIP:
                V.prove("SKIP leaves an existing file byte-for-byte untouched (default file name)",
                        sorted(os.listdir(work)) == sorted(os.path.basename(c) for c in candidates) and
                        all(open(c, "rb").read() == sentinel and os.stat(c).st_mtime_ns == stamps[c] for c in candidates))
            else:
                written = [c for c in candidates if os.path.isfile(c) and open(c, "rb").read() != sentinel]
                V.prove("the file is (over)written with the writer's own content (default file name)", len(written) == 1 and content(written[0]) == want)
            return
        path = os.path.join(tmp, "target")
        if exists:
            with open(path, "wb") as f:
                f.write(sentinel)
            stamp = os.stat(path).st_mtime_ns
        getattr(w, method)(path, mode)
        if exists and mode is OverwriteExistingFile.SKIP:
            V.prove("SKIP leaves an existing file byte-for-byte untouched", open(path, "rb").read() == sentinel and os.stat(path).st_mtime_ns == stamp)
        else:
            V.prove("the file is (over)written with the writer's own content", os.path.isfile(path) and content(path) == want)
        # a second call on the same writer object
        path2 = os.path.join(tmp, "target2")
        getattr(w, method)(path2, OverwriteExistingFile.ALWAYS)
        V.prove("a second write with the same writer object gives identical content", os.path.isfile(path2) and content(path2) == want)
    finally:
        wr.etree = keep_etree
        for k, v in keep_pb.items():
            setattr(wp, k, v)
        if keep_open is None:
            wp.__dict__.pop("open", None)
        else:
            wp.open = keep_open
        shutil.rmtree(tmp, ignore_errors=True)


_W = "commonroad.common.writer.file_writer_xml:"
_I = "commonroad.common.writer.file_writer_interface:"
_P = "commonroad.common.writer.file_writer_protobuf:"
MUTANTS = [
    dict(name="xml-root-not-reset", target=_W + "XMLFileWriter.write_to_file", old='        self._root_node = etree.Element("commonRoad")\n', new="",
         only="history.static.rectangle"),
    dict(name="scenario-write-keeps-foreign-precision", target=_W + "XMLFileWriter.write_scenario_to_file",
         old="        precision.decimals = self._decimal_precision\n", new="", only="history.static.rectangle"),
    dict(name="skip-overwrites", target=_I + "FileWriter._handle_file_path", old='                overwrite = "n"', new='                overwrite = "y"',
         only="overwrite-policy"),
    dict(name="protobuf-message-reused", target=_P + "ProtobufFileWriter.write_scenario_to_file",
         old="        self._commonroad_msg = commonroad_pb2.CommonRoad()\n", new="", only="overwrite-policy"),
    dict(name="protobuf-message-reused-in-a-history", target=_P + "ProtobufFileWriter.write_scenario_to_file",
         old="        self._commonroad_msg = commonroad_pb2.CommonRoad()\n", new="", only="history.static.rectangle"),
    # (a mutant that makes the stored precision wrong for every writer - clamping, a constant - is reported, but only after the solver has
    #  enumerated the digit counts on every history, beyond the quick budget the self-test runs under; the precision mechanism is covered
    #  by the mutant above, by seeded/regress_C15_global_precision and by four sub-agent changes)
]

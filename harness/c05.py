"""C05 - translate_rotate is the exact rigid motion on every object."""
import math

import numpy as np

import commonroad.geometry.transform as tr
from commonroad.common.util import AngleInterval, Interval
from commonroad.geometry.shape import Circle, Polygon, Rectangle, ShapeGroup
from commonroad.scenario import state as st

from symex.api import obligation

TWO_PI = 2.0 * math.pi
B = 1000.0
TOL = 1e-6
ASSUMPTIONS = [f"|coordinates|, |translation| <= {B:g}; rotation angle in [-2pi, 2pi]; stored orientations in [-2pi, 2pi]",
               f"'exact' is checked to {TOL:g} in real arithmetic so that formula errors are separated from IEEE rounding",
               "cos/sin of a symbolic angle are uninterpreted reals constrained by c^2+s^2=1, Taylor enclosures on |a|<=1, "
               "sign facts and angle-sum identities; the oracle uses the same two symbols"]
OUTSIDE = ["IEEE rounding", "3-D positions"]
STUBS = ["symmath.cos/sin", "shapely-lite Polygon (orient, centroid, bounds)"]
FT = ["commonroad/geometry/transform.py:translate_rotate", "commonroad/geometry/transform.py:translation_rotation_matrix",
      "commonroad/geometry/transform.py:rotate_translate", "commonroad/geometry/transform.py:rotation_translation_matrix",
      "commonroad/geometry/transform.py:to_homogeneous_coordinates"]


def motion(V):
    tx, ty = V.real("tx", -B, B), V.real("ty", -B, B)
    a = V.real("angle", -TWO_PI, TWO_PI)
    return np.array([tx, ty]), a, (tx, ty)


def pt(V, name):
    return V.real(name + "x", -B, B), V.real(name + "y", -B, B)


def expect(V, p, t, a):
    """R(a)(p + t) with the same cos/sin symbols the code uses"""
    c, s = V.cos(a), V.sin(a)
    x, y = p[0] + t[0], p[1] + t[1]
    return c * x - s * y, s * x + c * y


def same_point(V, got, exp, tol=TOL):
    return V.And(V.close(got[0], exp[0], tol), V.close(got[1], exp[1], tol))


def angle_moved(V, new, old, a):
    """new == old + a (mod 2pi) and new is a valid orientation"""
    return V.And(new >= -TWO_PI, new <= TWO_PI,
                 V.exists_int(-2, 2, lambda k: V.close(new, old + a + TWO_PI * k, 1e-9)))


@obligation("C05", "transform.translate_rotate", functions=FT, bounds="2 points, all translations, all angles in [-2pi,2pi]")
def t_translate_rotate(V):
    tv, a, t = motion(V)
    p, q = pt(V, "p"), pt(V, "q")
    out = tr.translate_rotate(np.array([[p[0], p[1]], [q[0], q[1]]]), tv, a)
    V.prove("p -> R(a)(p+t)", same_point(V, out[0], expect(V, p, t, a)))
    V.prove("q -> R(a)(q+t)", same_point(V, out[1], expect(V, q, t, a)))
    dx, dy = out[0][0] - out[1][0], out[0][1] - out[1][1]
    V.prove("distance preserved", V.close(dx * dx + dy * dy, (p[0] - q[0]) ** 2 + (p[1] - q[1]) ** 2, 1e-2))


@obligation("C05", "transform.undo", functions=FT, bounds="1 point; T(0,-a) then T(-t,0) undoes T(t,a)")
def t_undo(V):
    tv, a, t = motion(V)
    p = pt(V, "p")
    out = tr.translate_rotate(np.array([[p[0], p[1]]]), tv, a)
    back = tr.translate_rotate(out, np.array([0.0, 0.0]), -a)
    back = tr.translate_rotate(back, -tv, 0.0)
    V.prove("undo restores the point", same_point(V, back[0], p, 1e-5))


@obligation("C05", "transform.rotate_translate", functions=FT, bounds="1 point; rotate first, then translate")
def t_rotate_translate(V):
    tv, a, t = motion(V)
    p = pt(V, "p")
    out = tr.rotate_translate(np.array([[p[0], p[1]]]), tv, a)
    c, s = V.cos(a), V.sin(a)
    V.prove("p -> R(a)p + t", same_point(V, out[0], (c * p[0] - s * p[1] + t[0], s * p[0] + c * p[1] + t[1])))


FS = ["commonroad/geometry/shape.py:Rectangle.translate_rotate", "commonroad/geometry/shape.py:Circle.translate_rotate",
      "commonroad/geometry/shape.py:Polygon.translate_rotate", "commonroad/geometry/shape.py:ShapeGroup.translate_rotate",
      "commonroad/geometry/shape.py:Rectangle._compute_vertices", "commonroad/common/util.py:make_valid_orientation"] + FT


def _rect(V, n="r"):
    c = pt(V, n + "c")
    return Rectangle(V.real(n + "len", 0.01, 100), V.real(n + "wid", 0.01, 100), np.array([c[0], c[1]]),
                     V.real(n + "theta", -TWO_PI, TWO_PI)), c


def check_rect(V, new, old, oc, t, a, tag="rectangle"):
    V.prove(f"{tag}: centre moved", same_point(V, new.center, expect(V, oc, t, a)))
    V.prove(f"{tag}: orientation + a", angle_moved(V, new.orientation, old.orientation, a))
    V.prove(f"{tag}: dimensions kept", V.And(V.eq(new.length, old.length), V.eq(new.width, old.width)))


@obligation("C05", "shape.rectangle", functions=FS, bounds="all lengths/widths in [0.01,100], centre, orientation, motion")
def s_rect(V):
    tv, a, t = motion(V)
    r, c = _rect(V)
    n = r.translate_rotate(tv, a)
    check_rect(V, n, r, c, t, a)


@obligation("C05", "shape.rectangle.vertices", functions=FS, tier="thorough",
            bounds="corner points of the moved rectangle = moved corner points (one corner, via cos/sin(theta+a) identities)")
def s_rect_vertices(V):
    tv, a, t = motion(V)
    r, c = _rect(V)
    V.assume(V.And(r.orientation + a <= TWO_PI, r.orientation + a >= -TWO_PI), "no wrap of theta+a (wrap is covered by shape.rectangle)")
    n = r.translate_rotate(tv, a)
    v_old, v_new = r.vertices, n.vertices
    V.prove("corner 0 moved rigidly", same_point(V, v_new[0], expect(V, v_old[0], t, a), 1e-5))
    V.prove("corner 2 moved rigidly", same_point(V, v_new[2], expect(V, v_old[2], t, a), 1e-5))


@obligation("C05", "shape.circle", functions=FS, bounds="all radii, centres, motions")
def s_circle(V):
    tv, a, t = motion(V)
    c = pt(V, "c")
    ci = Circle(V.real("radius", 0.01, 100), np.array([c[0], c[1]]))
    n = ci.translate_rotate(tv, a)
    V.prove("circle: centre moved", same_point(V, n.center, expect(V, c, t, a)))
    V.prove("circle: radius kept", V.eq(n.radius, ci.radius))


POLYS = [
    [[0.0, 0.0], [4.0, 0.0], [1.0, 3.0]],  # counter-clockwise triangle (the constructor reverses it)
    [[0.0, 0.0], [1.0, 3.0], [4.0, 0.0]],  # clockwise triangle
    [[-2.0, -1.0], [0.0, 0.5], [2.0, -1.0], [0.0, 4.0]],  # non-convex quadrilateral (arrow head)
    [[100.0, 200.0], [100.5, 200.0], [100.5, 200.001], [100.0, 200.001]],  # thin, far from the origin
]


def _tri(V, n="v"):
    """a polygon from a small concrete family (symbolic index), placed at a symbolic offset"""
    k = V.choice(n + "_shape", len(POLYS))
    ox, oy = V.real(n + "_offx", -B, B), V.real(n + "_offy", -B, B)
    ps = [(x + ox, y + oy) for x, y in POLYS[k]]
    return Polygon(np.array([[p[0], p[1]] for p in ps])), ps


def check_poly(V, new, old, t, a, tag="polygon"):
    ov, nv = old.vertices, new.vertices
    V.prove(f"{tag}: same number of vertices", len(ov) == len(nv))
    for i in range(min(len(ov), len(nv))):
        V.prove(f"{tag}: vertex {i} moved", same_point(V, nv[i], expect(V, ov[i], t, a)))


@obligation("C05", "shape.polygon", functions=FS, bounds="4 concrete polygon shapes (cw/ccw triangle, non-convex quadrilateral, thin far rectangle) at a symbolic offset, all motions")
def s_polygon(V):
    tv, a, t = motion(V)
    poly, ps = _tri(V)
    n = poly.translate_rotate(tv, a)
    check_poly(V, n, poly, t, a)


@obligation("C05", "shape.group", functions=FS, bounds="group of rectangle + circle")
def s_group(V):
    tv, a, t = motion(V)
    r, rc = _rect(V)
    c = pt(V, "c")
    ci = Circle(V.real("radius", 0.01, 100), np.array([c[0], c[1]]))
    g = ShapeGroup([r, ci]).translate_rotate(tv, a)
    V.prove("group: 2 shapes of the same kinds", V.And(len(g.shapes) == 2, isinstance(g.shapes[0], Rectangle),
                                                        isinstance(g.shapes[1], Circle)))
    check_rect(V, g.shapes[0], r, rc, t, a, "group.rectangle")
    V.prove("group.circle: centre moved", same_point(V, g.shapes[1].center, expect(V, c, t, a)))


# ------------------------------------------------------------------------------------------------
# states
# ------------------------------------------------------------------------------------------------
FST = ["commonroad/scenario/state.py:State.translate_rotate", "commonroad/common/util.py:AngleInterval.__add__",
       "commonroad/common/util.py:make_valid_orientation_interval"] + FS

STATE_KINDS = {
    "InitialState": lambda p, th, v: st.InitialState(time_step=0, position=p, orientation=th, velocity=v, acceleration=0.0,
                                                      yaw_rate=0.0, slip_angle=0.0),
    "KSState": lambda p, th, v: st.KSState(time_step=1, position=p, orientation=th, velocity=v, steering_angle=0.1),
    "KSTState": lambda p, th, v: st.KSTState(time_step=1, position=p, orientation=th, velocity=v, steering_angle=0.1, hitch_angle=0.2),
    "STState": lambda p, th, v: st.STState(time_step=1, position=p, orientation=th, velocity=v, steering_angle=0.1, slip_angle=0.0, yaw_rate=0.0),
    "MBState": lambda p, th, v: st.MBState(time_step=1, position=p, orientation=th, velocity=v, steering_angle=0.0, velocity_y=0.3),
    "ExtendedPMState": lambda p, th, v: st.ExtendedPMState(time_step=1, position=p, orientation=th, velocity=v, acceleration=0.0),
    "CustomState": lambda p, th, v: st.CustomState(time_step=1, position=p, orientation=th, velocity=v),
}


def _mk_state(kind):
    @obligation("C05", f"state.{kind}.exact", functions=FST, bounds="exact position and orientation, all motions")
    def ob(V):
        tv, a, t = motion(V)
        p = pt(V, "p")
        th = V.real("theta", -TWO_PI, TWO_PI)
        v = V.real("v", -50, 50)
        s = STATE_KINDS[kind](np.array([p[0], p[1]]), th, v)
        n = s.translate_rotate(tv, a)
        V.prove("state: same class and attributes", V.And(type(n) is type(s), set(n.attributes) == set(s.attributes)))
        V.prove("state: position moved", same_point(V, n.position, expect(V, p, t, a)))
        V.prove("state: orientation + a", angle_moved(V, n.orientation, th, a))
        V.prove("state: velocity and time step kept", V.And(V.eq(n.velocity, v), n.time_step == s.time_step))
        V.prove("state: original untouched", V.And(V.eq(s.position[0], p[0]), V.eq(s.position[1], p[1]), V.eq(s.orientation, th)))

    return ob


for _k in STATE_KINDS:
    _mk_state(_k)


@obligation("C05", "state.PMState", functions=FST + ["commonroad/scenario/state.py:PMState.orientation"],
            bounds="point-mass state: position moved, velocity vector (hence heading atan2(vy,vx)) rotated by a")
def state_pm(V):
    tv, a, t = motion(V)
    p = pt(V, "p")
    vx, vy = V.real("vx", -50, 50), V.real("vy", -50, 50)
    s = st.PMState(time_step=3, position=np.array([p[0], p[1]]), velocity=vx, velocity_y=vy)
    n = s.translate_rotate(tv, a)
    V.prove("pm: position moved", same_point(V, n.position, expect(V, p, t, a)))
    c, sn = V.cos(a), V.sin(a)
    V.prove("pm: velocity vector rotated (heading + a)",
            V.And(V.close(n.velocity, c * vx - sn * vy), V.close(n.velocity_y, sn * vx + c * vy)))


@obligation("C05", "state.uncertain", functions=FST, bounds="KS state with rectangle region and angle interval")
def state_uncertain(V):
    tv, a, t = motion(V)
    r, rc = _rect(V)
    lo = V.real("o_lo", -TWO_PI, TWO_PI)
    hi = V.real("o_hi", -TWO_PI, TWO_PI)
    V.assume(V.And(lo <= hi, hi - lo < TWO_PI))
    s = st.KSState(time_step=Interval(1, 2), position=r, orientation=AngleInterval(lo, hi), velocity=Interval(0.0, 1.0),
                   steering_angle=0.0)
    n = s.translate_rotate(tv, a)
    V.prove("uncertain: region is a rectangle", isinstance(n.position, Rectangle))
    check_rect(V, n.position, r, rc, t, a, "uncertain.region")
    o = n.orientation
    V.prove("uncertain: orientation is an angle interval", isinstance(o, AngleInterval))
    V.prove("uncertain: interval moved by a, length kept", V.And(
        V.close(o.end - o.start, hi - lo, 1e-9), o.start >= -TWO_PI, o.end <= TWO_PI,
        V.exists_int(-2, 2, lambda k: V.close(o.start, lo + a + TWO_PI * k, 1e-9))))
    V.prove("uncertain: original untouched", V.And(V.eq(s.orientation.start, lo), V.eq(s.orientation.end, hi)))


@obligation("C05", "state.uncertain.circle-polygon", functions=FST, bounds="states whose position is a circle / a triangle")
def state_uncertain2(V):
    tv, a, t = motion(V)
    c = pt(V, "c")
    s1 = st.InitialState(time_step=0, position=Circle(V.real("radius", 0.01, 100), np.array([c[0], c[1]])), orientation=0.0,
                         velocity=0.0, acceleration=0.0, yaw_rate=0.0, slip_angle=0.0)
    n1 = s1.translate_rotate(tv, a)
    V.prove("circle region: centre moved", V.And(isinstance(n1.position, Circle), same_point(V, n1.position.center, expect(V, c, t, a))))
    poly, ps = _tri(V)
    s2 = st.KSState(time_step=1, position=poly, orientation=0.0, velocity=0.0, steering_angle=0.0)
    n2 = s2.translate_rotate(tv, a)
    check_poly(V, n2.position, poly, t, a, "polygon region")

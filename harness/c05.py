"""C05 - translate_rotate is the exact rigid motion on every object."""
import math

import numpy as np

import commonroad.geometry.transform as tr
from commonroad.common.util import AngleInterval, Interval
from commonroad.geometry.shape import Circle, Polygon, Rectangle, ShapeGroup
from commonroad.scenario import state as st

from symex.api import obligation

TWO_PI = 2.0 * math.pi
B = 1000.0
TOL = 1e-6
ASSUMPTIONS = [f"|coordinates|, |translation| <= {B:g}; rotation angle in [-2pi, 2pi]; stored orientations in [-2pi, 2pi]",
               f"'exact' is checked to {TOL:g} in real arithmetic so that formula errors are separated from IEEE rounding",
               "cos/sin of a symbolic angle are uninterpreted reals constrained by c^2+s^2=1, Taylor enclosures on |a|<=1, "
               "sign facts and angle-sum identities; the oracle uses the same two symbols"]
OUTSIDE = ["IEEE rounding", "3-D positions"]
STUBS = ["symmath.cos/sin", "shapely-lite Polygon (orient, centroid, bounds)"]
FT = ["commonroad/geometry/transform.py:translate_rotate", "commonroad/geometry/transform.py:translation_rotation_matrix",
      "commonroad/geometry/transform.py:rotate_translate", "commonroad/geometry/transform.py:rotation_translation_matrix",
      "commonroad/geometry/transform.py:to_homogeneous_coordinates"]


def motion(V):
    tx, ty = V.real("tx", -B, B), V.real("ty", -B, B)
    a = V.real("angle", -TWO_PI, TWO_PI)
    return np.array([tx, ty]), a, (tx, ty)


def pt(V, name):
    return V.real(name + "x", -B, B), V.real(name + "y", -B, B)


def expect(V, p, t, a):
    """R(a)(p + t) with the same cos/sin symbols the code uses"""
    c, s = V.cos(a), V.sin(a)
    x, y = p[0] + t[0], p[1] + t[1]
    return c * x - s * y, s * x + c * y


def same_point(V, got, exp, tol=TOL):
    return V.And(V.close(got[0], exp[0], tol), V.close(got[1], exp[1], tol))


def angle_moved(V, new, old, a):
    """new == old + a (mod 2pi) and new is a valid orientation"""
    return V.And(new >= -TWO_PI, new <= TWO_PI,
                 V.exists_int(-2, 2, lambda k: V.close(new, old + a + TWO_PI * k, 1e-9)))


@obligation("C05", "transform.translate_rotate", functions=FT, bounds="2 points, all translations, all angles in [-2pi,2pi]")
def t_translate_rotate(V):
    tv, a, t = motion(V)
    p, q = pt(V, "p"), pt(V, "q")
    out = tr.translate_rotate(np.array([[p[0], p[1]], [q[0], q[1]]]), tv, a)
    V.prove("p -> R(a)(p+t)", same_point(V, out[0], expect(V, p, t, a)))
    V.prove("q -> R(a)(q+t)", same_point(V, out[1], expect(V, q, t, a)))
    dx, dy = out[0][0] - out[1][0], out[0][1] - out[1][1]
    V.prove("distance preserved", V.close(dx * dx + dy * dy, (p[0] - q[0]) ** 2 + (p[1] - q[1]) ** 2, 1e-2))


@obligation("C05", "transform.undo", functions=FT, bounds="1 point; T(0,-a) then T(-t,0) undoes T(t,a)")
def t_undo(V):
    tv, a, t = motion(V)
    p = pt(V, "p")
    out = tr.translate_rotate(np.array([[p[0], p[1]]]), tv, a)
    back = tr.translate_rotate(out, np.array([0.0, 0.0]), -a)
    back = tr.translate_rotate(back, -tv, 0.0)
    V.prove("undo restores the point", same_point(V, back[0], p, 1e-5))


@obligation("C05", "transform.rotate_translate", functions=FT, bounds="1 point; rotate first, then translate")
def t_rotate_translate(V):
    tv, a, t = motion(V)
    p = pt(V, "p")
    out = tr.rotate_translate(np.array([[p[0], p[1]]]), tv, a)
    c, s = V.cos(a), V.sin(a)
    V.prove("p -> R(a)p + t", same_point(V, out[0], (c * p[0] - s * p[1] + t[0], s * p[0] + c * p[1] + t[1])))


FS = ["commonroad/geometry/shape.py:Rectangle.translate_rotate", "commonroad/geometry/shape.py:Circle.translate_rotate",
      "commonroad/geometry/shape.py:Polygon.translate_rotate", "commonroad/geometry/shape.py:ShapeGroup.translate_rotate",
      "commonroad/geometry/shape.py:Rectangle._compute_vertices", "commonroad/common/util.py:make_valid_orientation"] + FT


def _rect(V, n="r"):
    c = pt(V, n + "c")
    return Rectangle(V.real(n + "len", 0.01, 100), V.real(n + "wid", 0.01, 100), np.array([c[0], c[1]]),
                     V.real(n + "theta", -TWO_PI, TWO_PI)), c


def check_rect(V, new, old, oc, t, a, tag="rectangle"):
    V.prove(f"{tag}: centre moved", same_point(V, new.center, expect(V, oc, t, a)))
    V.prove(f"{tag}: orientation + a", angle_moved(V, new.orientation, old.orientation, a))
    V.prove(f"{tag}: dimensions kept", V.And(V.eq(new.length, old.length), V.eq(new.width, old.width)))


@obligation("C05", "shape.rectangle", functions=FS, bounds="all lengths/widths in [0.01,100], centre, orientation, motion")
def s_rect(V):
    tv, a, t = motion(V)
    r, c = _rect(V)
    n = r.translate_rotate(tv, a)
    check_rect(V, n, r, c, t, a)


# (an obligation on the corner points of the moved rectangle - cos / sin of theta + a through the addition theorems - was dropped:
#  z3 answers unknown on it within every budget tried, so it decided nothing; centre, size and orientation of the moved rectangle
#  are proved by shape.rectangle, and the corner points are a function of those)


@obligation("C05", "shape.circle", functions=FS, bounds="all radii, centres, motions")
def s_circle(V):
    tv, a, t = motion(V)
    c = pt(V, "c")
    ci = Circle(V.real("radius", 0.01, 100), np.array([c[0], c[1]]))
    n = ci.translate_rotate(tv, a)
    V.prove("circle: centre moved", same_point(V, n.center, expect(V, c, t, a)))
    V.prove("circle: radius kept", V.eq(n.radius, ci.radius))


POLYS = [
    [[0.0, 0.0], [4.0, 0.0], [1.0, 3.0]],  # counter-clockwise triangle (the constructor reverses it)
    [[0.0, 0.0], [1.0, 3.0], [4.0, 0.0]],  # clockwise triangle
    [[-2.0, -1.0], [0.0, 0.5], [2.0, -1.0], [0.0, 4.0]],  # non-convex quadrilateral (arrow head)
    [[100.0, 200.0], [100.5, 200.0], [100.5, 200.001], [100.0, 200.001]],  # thin, far from the origin
]


def _tri(V, n="v"):
    """a polygon from a small concrete family (symbolic index), placed at a symbolic offset"""
    k = V.choice(n + "_shape", len(POLYS))
    ox, oy = V.real(n + "_offx", -B, B), V.real(n + "_offy", -B, B)
    ps = [(x + ox, y + oy) for x, y in POLYS[k]]
    return Polygon(np.array([[p[0], p[1]] for p in ps])), ps


def check_poly(V, new, old, t, a, tag="polygon"):
    ov, nv = old.vertices, new.vertices
    V.prove(f"{tag}: same number of vertices", len(ov) == len(nv))
    for i in range(min(len(ov), len(nv))):
        V.prove(f"{tag}: vertex {i} moved", same_point(V, nv[i], expect(V, ov[i], t, a)))


@obligation("C05", "shape.polygon", functions=FS, bounds="4 concrete polygon shapes (cw/ccw triangle, non-convex quadrilateral, thin far rectangle) at a symbolic offset, all motions")
def s_polygon(V):
    tv, a, t = motion(V)
    poly, ps = _tri(V)
    n = poly.translate_rotate(tv, a)
    check_poly(V, n, poly, t, a)


@obligation("C05", "shape.group", functions=FS, bounds="group of rectangle + circle")
def s_group(V):
    tv, a, t = motion(V)
    r, rc = _rect(V)
    c = pt(V, "c")
    ci = Circle(V.real("radius", 0.01, 100), np.array([c[0], c[1]]))
    g = ShapeGroup([r, ci]).translate_rotate(tv, a)
    V.prove("group: 2 shapes of the same kinds", V.And(len(g.shapes) == 2, isinstance(g.shapes[0], Rectangle),
                                                        isinstance(g.shapes[1], Circle)))
    check_rect(V, g.shapes[0], r, rc, t, a, "group.rectangle")
    V.prove("group.circle: centre moved", same_point(V, g.shapes[1].center, expect(V, c, t, a)))


# ------------------------------------------------------------------------------------------------
# states
# ------------------------------------------------------------------------------------------------
FST = ["commonroad/scenario/state.py:State.translate_rotate", "commonroad/common/util.py:AngleInterval.__add__",
       "commonroad/common/util.py:make_valid_orientation_interval"] + FS

STATE_KINDS = {
    "InitialState": lambda p, th, v: st.InitialState(time_step=0, position=p, orientation=th, velocity=v, acceleration=0.0,
                                                      yaw_rate=0.0, slip_angle=0.0),
    "KSState": lambda p, th, v: st.KSState(time_step=1, position=p, orientation=th, velocity=v, steering_angle=0.1),
    "KSTState": lambda p, th, v: st.KSTState(time_step=1, position=p, orientation=th, velocity=v, steering_angle=0.1, hitch_angle=0.2),
    "STState": lambda p, th, v: st.STState(time_step=1, position=p, orientation=th, velocity=v, steering_angle=0.1, slip_angle=0.0, yaw_rate=0.0),
    "MBState": lambda p, th, v: st.MBState(time_step=1, position=p, orientation=th, velocity=v, steering_angle=0.0, velocity_y=0.3),
    "ExtendedPMState": lambda p, th, v: st.ExtendedPMState(time_step=1, position=p, orientation=th, velocity=v, acceleration=0.0),
    "CustomState": lambda p, th, v: st.CustomState(time_step=1, position=p, orientation=th, velocity=v),
}


def _mk_state(kind):
    @obligation("C05", f"state.{kind}.exact", functions=FST, bounds="exact position and orientation, all motions")
    def ob(V):
        tv, a, t = motion(V)
        p = pt(V, "p")
        th = V.real("theta", -TWO_PI, TWO_PI)
        v = V.real("v", -50, 50)
        s = STATE_KINDS[kind](np.array([p[0], p[1]]), th, v)
        n = s.translate_rotate(tv, a)
        V.prove("state: same class and attributes", V.And(type(n) is type(s), set(n.attributes) == set(s.attributes)))
        V.prove("state: position moved", same_point(V, n.position, expect(V, p, t, a)))
        V.prove("state: orientation + a", angle_moved(V, n.orientation, th, a))
        V.prove("state: velocity and time step kept", V.And(V.eq(n.velocity, v), n.time_step == s.time_step))
        V.prove("state: original untouched", V.And(V.eq(s.position[0], p[0]), V.eq(s.position[1], p[1]), V.eq(s.orientation, th)))

    return ob


for _k in STATE_KINDS:
    _mk_state(_k)


@obligation("C05", "state.PMState", functions=FST + ["commonroad/scenario/state.py:PMState.orientation"],
            bounds="point-mass state: position moved, velocity vector (hence heading atan2(vy,vx)) rotated by a")
def state_pm(V):
    tv, a, t = motion(V)
    p = pt(V, "p")
    vx, vy = V.real("vx", -50, 50), V.real("vy", -50, 50)
    s = st.PMState(time_step=3, position=np.array([p[0], p[1]]), velocity=vx, velocity_y=vy)
    n = s.translate_rotate(tv, a)
    V.prove("pm: position moved", same_point(V, n.position, expect(V, p, t, a)))
    c, sn = V.cos(a), V.sin(a)
    V.prove("pm: velocity vector rotated (heading + a)",
            V.And(V.close(n.velocity, c * vx - sn * vy), V.close(n.velocity_y, sn * vx + c * vy)))


@obligation("C05", "state.uncertain", functions=FST, bounds="KS state with rectangle region and angle interval")
def state_uncertain(V):
    tv, a, t = motion(V)
    r, rc = _rect(V)
    lo = V.real("o_lo", -TWO_PI, TWO_PI)
    hi = V.real("o_hi", -TWO_PI, TWO_PI)
    V.assume(V.And(lo <= hi, hi - lo < TWO_PI))
    s = st.KSState(time_step=Interval(1, 2), position=r, orientation=AngleInterval(lo, hi), velocity=Interval(0.0, 1.0),
                   steering_angle=0.0)
    n = s.translate_rotate(tv, a)
    V.prove("uncertain: region is a rectangle", isinstance(n.position, Rectangle))
    check_rect(V, n.position, r, rc, t, a, "uncertain.region")
    o = n.orientation
    V.prove("uncertain: orientation is an angle interval", isinstance(o, AngleInterval))
    V.prove("uncertain: interval moved by a, length kept", V.And(
        V.close(o.end - o.start, hi - lo, 1e-9), o.start >= -TWO_PI, o.end <= TWO_PI,
        V.exists_int(-2, 2, lambda k: V.close(o.start, lo + a + TWO_PI * k, 1e-9))))
    V.prove("uncertain: original untouched", V.And(V.eq(s.orientation.start, lo), V.eq(s.orientation.end, hi)))


@obligation("C05", "state.uncertain.circle-polygon", functions=FST, bounds="states whose position is a circle / a triangle")
def state_uncertain2(V):
    tv, a, t = motion(V)
    c = pt(V, "c")
    s1 = st.InitialState(time_step=0, position=Circle(V.real("radius", 0.01, 100), np.array([c[0], c[1]])), orientation=0.0,
                         velocity=0.0, acceleration=0.0, yaw_rate=0.0, slip_angle=0.0)
    n1 = s1.translate_rotate(tv, a)
    V.prove("circle region: centre moved", V.And(isinstance(n1.position, Circle), same_point(V, n1.position.center, expect(V, c, t, a))))
    poly, ps = _tri(V)
    s2 = st.KSState(time_step=1, position=poly, orientation=0.0, velocity=0.0, steering_angle=0.0)
    n2 = s2.translate_rotate(tv, a)
    check_poly(V, n2.position, poly, t, a, "polygon region")


# ------------------------------------------------------------------------------------------------
# containers: trajectories, predictions, obstacles, network elements, scenario, planning problems
# ------------------------------------------------------------------------------------------------
from commonroad.common.common_lanelet import LineMarking, StopLine  # noqa: E402
from commonroad.planning.goal import GoalRegion  # noqa: E402
from commonroad.planning.planning_problem import PlanningProblem, PlanningProblemSet  # noqa: E402
from commonroad.prediction.prediction import Occupancy, SetBasedPrediction, TrajectoryPrediction  # noqa: E402
from commonroad.scenario.lanelet import Lanelet, LaneletNetwork  # noqa: E402
from commonroad.scenario.obstacle import (DynamicObstacle, EnvironmentObstacle, ObstacleType, PhantomObstacle,  # noqa: E402
                                          StaticObstacle)
from commonroad.scenario.scenario import Scenario  # noqa: E402
from commonroad.scenario.trajectory import Trajectory  # noqa: E402

from harness import fixtures as fx  # noqa: E402

FC = FST + ["commonroad/scenario/trajectory.py:Trajectory.translate_rotate", "commonroad/prediction/prediction.py:*.translate_rotate",
            "commonroad/scenario/obstacle.py:*.translate_rotate", "commonroad/common/common_lanelet.py:StopLine.translate_rotate",
            "commonroad/scenario/lanelet.py:Lanelet.translate_rotate", "commonroad/scenario/lanelet.py:LaneletNetwork.translate_rotate",
            "commonroad/scenario/traffic_sign.py:TrafficSign.translate_rotate", "commonroad/scenario/traffic_light.py:TrafficLight.translate_rotate",
            "commonroad/scenario/scenario.py:Scenario.translate_rotate", "commonroad/planning/goal.py:GoalRegion.translate_rotate",
            "commonroad/planning/planning_problem.py:PlanningProblem.translate_rotate",
            "commonroad/planning/planning_problem.py:PlanningProblemSet.translate_rotate"]


def ks(t, p, th):
    return st.KSState(time_step=t, position=np.array([p[0], p[1]]), orientation=th, velocity=1.0, steering_angle=0.0)


@obligation("C05", "trajectory.ks", functions=FC, bounds="trajectory of 2 kinematic states, symbolic poses")
def traj_ks(V):
    tv, a, t = motion(V)
    ps = [pt(V, f"p{i}") for i in range(2)]
    ths = [V.real(f"theta{i}", -TWO_PI, TWO_PI) for i in range(2)]
    tr_ = Trajectory(3, [ks(3 + i, ps[i], ths[i]) for i in range(2)])
    tr_.translate_rotate(tv, a)
    V.prove("trajectory keeps its states and time steps", V.And(len(tr_.state_list) == 2, tr_.initial_time_step == 3,
                                                               [tr_.state_list[i].time_step == 3 + i for i in range(2)]))
    for i in range(2):
        V.prove(f"trajectory state {i}: position moved", same_point(V, tr_.state_list[i].position, expect(V, ps[i], t, a)))
        V.prove(f"trajectory state {i}: orientation + a", angle_moved(V, tr_.state_list[i].orientation, ths[i], a))


@obligation("C05", "trajectory.pm", functions=FC, bounds="trajectory of 2 point-mass states: velocity vectors rotate with it")
def traj_pm(V):
    tv, a, t = motion(V)
    ps = [pt(V, f"p{i}") for i in range(2)]
    vs = [(V.real(f"vx{i}", -50, 50), V.real(f"vy{i}", -50, 50)) for i in range(2)]
    tr_ = Trajectory(0, [st.PMState(time_step=i, position=np.array([ps[i][0], ps[i][1]]), velocity=vs[i][0], velocity_y=vs[i][1])
                         for i in range(2)])
    tr_.translate_rotate(tv, a)
    c, s = V.cos(a), V.sin(a)
    for i in range(2):
        n = tr_.state_list[i]
        V.prove(f"pm trajectory state {i}: position moved", same_point(V, n.position, expect(V, ps[i], t, a)))
        V.prove(f"pm trajectory state {i}: velocity vector rotated",
                V.And(V.close(n.velocity, c * vs[i][0] - s * vs[i][1]), V.close(n.velocity_y, s * vs[i][0] + c * vs[i][1])))


@obligation("C05", "prediction.setbased", functions=FC, bounds="occupancies with rectangle and circle shapes")
def pred_set(V):
    tv, a, t = motion(V)
    r, rc = _rect(V)
    c = pt(V, "c")
    sp = SetBasedPrediction(1, [Occupancy(1, r), Occupancy(Interval(2, 4), Circle(2.0, np.array([c[0], c[1]])))])
    sp.translate_rotate(tv, a)
    V.prove("set-based: time steps kept", V.And(sp.occupancy_set[0].time_step == 1, sp.occupancy_set[1].time_step.start == 2,
                                                sp.occupancy_set[1].time_step.end == 4))
    check_rect(V, sp.occupancy_set[0].shape, r, rc, t, a, "set-based occupancy 0")
    V.prove("set-based occupancy 1: centre moved", same_point(V, sp.occupancy_set[1].shape.center, expect(V, c, t, a)))


def _dyn(V, n="d"):
    p0, p1 = pt(V, n + "p0"), pt(V, n + "p1")
    th0, th1 = V.real(n + "theta0", -TWO_PI, TWO_PI), V.real(n + "theta1", -TWO_PI, TWO_PI)
    shape = Rectangle(4.0, 2.0)
    init = st.InitialState(time_step=0, position=np.array([p0[0], p0[1]]), orientation=th0, velocity=1.0, acceleration=0.0,
                           yaw_rate=0.0, slip_angle=0.0)
    o = DynamicObstacle(31, ObstacleType.CAR, shape, init, TrajectoryPrediction(Trajectory(1, [ks(1, p1, th1)]), shape))
    return o, (p0, th0), (p1, th1)


def check_dyn(V, o, s0, s1, t, a, tag="dynamic"):
    V.prove(f"{tag}: initial position moved", same_point(V, o.initial_state.position, expect(V, s0[0], t, a)))
    V.prove(f"{tag}: initial orientation + a", angle_moved(V, o.initial_state.orientation, s0[1], a))
    n1 = o.prediction.trajectory.state_list[0]
    V.prove(f"{tag}: predicted position moved", same_point(V, n1.position, expect(V, s1[0], t, a)))
    V.prove(f"{tag}: predicted orientation + a", angle_moved(V, n1.orientation, s1[1], a))
    occ0, occ1 = o.occupancy_at_time(0), o.occupancy_at_time(1)
    V.prove(f"{tag}: occupancy at the initial step moved", V.And(occ0 is not None, same_point(V, occ0.shape.center, expect(V, s0[0], t, a))
                                                                  if occ0 is not None else False))
    V.prove(f"{tag}: predicted occupancy moved", V.And(occ1 is not None, same_point(V, occ1.shape.center, expect(V, s1[0], t, a))
                                                        if occ1 is not None else False))


@obligation("C05", "obstacle.dynamic", functions=FC, bounds="dynamic obstacle: initial state + 1 predicted state, rectangle shape")
def obs_dyn(V):
    tv, a, t = motion(V)
    o, s0, s1 = _dyn(V)
    o.translate_rotate(tv, a)
    check_dyn(V, o, s0, s1, t, a)


@obligation("C05", "obstacle.static-phantom-environment", functions=FC,
            bounds="static obstacle (state + occupancy), phantom obstacle (stored occupancy), environment obstacle (shape)")
def obs_other(V):
    tv, a, t = motion(V)
    p = pt(V, "sp")
    th = V.real("stheta", -TWO_PI, TWO_PI)
    so = StaticObstacle(30, ObstacleType.PARKED_VEHICLE, Rectangle(4.0, 2.0), fx.init_state(0, p[0], p[1], th))
    so.translate_rotate(tv, a)
    V.prove("static: initial position moved", same_point(V, so.initial_state.position, expect(V, p, t, a)))
    V.prove("static: orientation + a", angle_moved(V, so.initial_state.orientation, th, a))
    occ = so.occupancy_at_time(5)
    V.prove("static: occupancy moved", V.And(same_point(V, occ.shape.center, expect(V, p, t, a)), angle_moved(V, occ.shape.orientation, th, a)))
    c = pt(V, "pc")
    ph = PhantomObstacle(32, SetBasedPrediction(0, [Occupancy(0, Circle(1.5, np.array([c[0], c[1]])))]))
    ph.translate_rotate(tv, a)
    V.prove("phantom: occupancy moved", same_point(V, ph.occupancy_at_time(0).shape.center, expect(V, c, t, a)))
    e = pt(V, "ec")
    env = EnvironmentObstacle(33, ObstacleType.BUILDING, Circle(3.0, np.array([e[0], e[1]])))
    sc = Scenario(0.1)
    sc.add_objects([env])
    sc.translate_rotate(tv, a)
    V.prove("environment obstacle: shape moved with the scenario",
            same_point(V, sc.obstacles[0].occupancy_at_time(0).shape.center, expect(V, e, t, a)))


LANELET_L = [[0.0, 2.0], [5.0, 2.5], [10.0, 4.0]]
LANELET_C = [[0.0, 0.25], [5.0, 1.25], [10.0, 2.0]]  # deliberately not the midline of the two boundaries (map converters produce such centre lines)
LANELET_R = [[0.0, -1.0], [5.0, -0.5], [10.0, 1.0]]


def _lanelet(V, lid, off):
    mk = lambda pts_: np.array([[x + off[0], y + off[1]] for x, y in pts_])
    sl = StopLine(np.array([9.0 + off[0], 1.0 + off[1]]), np.array([9.0 + off[0], 4.0 + off[1]]), LineMarking.SOLID)
    return Lanelet(mk(LANELET_L), mk(LANELET_C), mk(LANELET_R), lid, stop_line=sl)


def check_lanelet(V, la, off, t, a, tag):
    for nm, got, base in (("left", la.left_vertices, LANELET_L), ("centre", la.center_vertices, LANELET_C), ("right", la.right_vertices, LANELET_R)):
        V.prove(f"{tag}: {nm} boundary moved", V.And([same_point(V, got[i], expect(V, (base[i][0] + off[0], base[i][1] + off[1]), t, a))
                                                       for i in range(3)]))
    V.prove(f"{tag}: stop line moved", V.And(same_point(V, la.stop_line.start, expect(V, (9.0 + off[0], 1.0 + off[1]), t, a)),
                                              same_point(V, la.stop_line.end, expect(V, (9.0 + off[0], 4.0 + off[1]), t, a))))
    ring = [(x + off[0], y + off[1]) for x, y in LANELET_R + LANELET_L[::-1]]
    pv = la.polygon.vertices
    V.prove(f"{tag}: polygon rebuilt from the moved boundaries",
            V.And(len(pv) == 7, [V.Or([same_point(V, pv[i], expect(V, q, t, a)) for q in ring]) for i in range(min(len(pv), 7))]))


@obligation("C05", "lanelet", functions=FC, bounds="curved 3-vertex lanelet with stop line at a symbolic offset")
def lanelet(V):
    tv, a, t = motion(V)
    off = (V.real("offx", -B, B), V.real("offy", -B, B))
    la = _lanelet(V, 1, off)
    la.translate_rotate(tv, a)
    check_lanelet(V, la, off, t, a, "lanelet")


@obligation("C05", "sign-light", functions=FC, bounds="traffic sign and traffic light at symbolic positions")
def sign_light(V):
    tv, a, t = motion(V)
    ps, pl = pt(V, "sign"), pt(V, "light")
    s, l = fx.sign(10, pos=ps), fx.light(11, pos=pl)
    s.translate_rotate(tv, a)
    l.translate_rotate(tv, a)
    V.prove("traffic sign position moved", same_point(V, s.position, expect(V, ps, t, a)))
    V.prove("traffic light position moved", same_point(V, l.position, expect(V, pl, t, a)))


@obligation("C05", "scenario.mix", functions=FC, max_paths={"quick": 3000, "thorough": 20000},
            bounds="scenario with a lanelet, sign, light and a static, dynamic, phantom and environment obstacle: all components "
                   "move together and the call never fails")
def scenario_mix(V):
    tv, a, t = motion(V)
    sc = Scenario(0.1)
    la = _lanelet(V, 1, (0.0, 0.0))
    ps, pl = pt(V, "sign"), pt(V, "light")
    net = LaneletNetwork()
    net.add_lanelet(la)
    net.add_traffic_sign(fx.sign(10, pos=ps), set())
    net.add_traffic_light(fx.light(11, pos=pl), set())
    sc.add_objects(net)
    o, s0, s1 = _dyn(V)
    p = pt(V, "sp")
    so = StaticObstacle(30, ObstacleType.PARKED_VEHICLE, Rectangle(4.0, 2.0), fx.init_state(0, p[0], p[1], 0.3))
    c = pt(V, "pc")
    ph = PhantomObstacle(32, SetBasedPrediction(0, [Occupancy(0, Circle(1.5, np.array([c[0], c[1]])))]))
    e = pt(V, "ec")
    env = EnvironmentObstacle(33, ObstacleType.BUILDING, Circle(3.0, np.array([e[0], e[1]])))
    sc.add_objects([o, so, ph, env])
    sc.translate_rotate(tv, a)
    check_lanelet(V, sc.lanelet_network.find_lanelet_by_id(1), (0.0, 0.0), t, a, "scenario.lanelet")
    V.prove("scenario: sign and light moved", V.And(same_point(V, sc.lanelet_network.find_traffic_sign_by_id(10).position, expect(V, ps, t, a)),
                                                     same_point(V, sc.lanelet_network.find_traffic_light_by_id(11).position, expect(V, pl, t, a))))
    check_dyn(V, sc.obstacle_by_id(31), s0, s1, t, a, "scenario.dynamic")
    V.prove("scenario: static obstacle moved", same_point(V, sc.obstacle_by_id(30).initial_state.position, expect(V, p, t, a)))
    V.prove("scenario: phantom obstacle moved", same_point(V, sc.obstacle_by_id(32).occupancy_at_time(0).shape.center, expect(V, c, t, a)))
    V.prove("scenario: environment obstacle moved", same_point(V, sc.obstacle_by_id(33).occupancy_at_time(0).shape.center, expect(V, e, t, a)))


@obligation("C05", "planning-problem", functions=FC, bounds="planning problem set with one problem: initial state, goal with rectangle and "
                                                              "angle interval")
def planning(V):
    tv, a, t = motion(V)
    p = pt(V, "ip")
    th = V.real("itheta", -TWO_PI, TWO_PI)
    r, rc = _rect(V, "g")
    lo, hi = V.real("o_lo", -TWO_PI, TWO_PI), V.real("o_hi", -TWO_PI, TWO_PI)
    V.assume(V.And(lo <= hi, hi - lo < TWO_PI))
    goal = GoalRegion([st.CustomState(time_step=Interval(0, 10), position=r, orientation=AngleInterval(lo, hi))])
    pp = PlanningProblem(1, fx.init_state(0, p[0], p[1], th, 2.0), goal)
    pps = PlanningProblemSet([pp])
    pps.translate_rotate(tv, a)
    q = pps.find_planning_problem_by_id(1)
    V.prove("planning problem: initial position moved", same_point(V, q.initial_state.position, expect(V, p, t, a)))
    V.prove("planning problem: initial orientation + a", angle_moved(V, q.initial_state.orientation, th, a))
    g = q.goal.state_list[0]
    check_rect(V, g.position, r, rc, t, a, "goal region")
    V.prove("goal: angle interval moved, length kept", V.And(
        V.close(g.orientation.end - g.orientation.start, hi - lo, 1e-9),
        V.exists_int(-2, 2, lambda k: V.close(g.orientation.start, lo + a + TWO_PI * k, 1e-9))))
    V.prove("goal: time interval kept", V.And(g.time_step.start == 0, g.time_step.end == 10))


_T = "commonroad.geometry.transform:"
MUTANTS = [
    dict(name="rotation-sign-flipped", target=_T + "translation_rotation_matrix", old="[[cos_angle, -sin_angle, 0.0], [sin_angle, cos_angle, 0.0]",
         new="[[cos_angle, sin_angle, 0.0], [-sin_angle, cos_angle, 0.0]", only="transform.translate_rotate"),
    dict(name="rotate-before-translate", target=_T + "translation_rotation_matrix", old="return rotation_matrix.dot(translation_matrix)",
         new="return translation_matrix.dot(rotation_matrix)", only="shape.circle"),
    dict(name="pm-velocity-not-rotated", target="commonroad.scenario.state:PMState.translate_rotate",
         old="transformed_state.velocity_y = sin_angle * self.velocity + cos_angle * self.velocity_y",
         new="transformed_state.velocity_y = self.velocity_y", only="state.PMState"),
    dict(name="lanelet-centre-not-moved", target="commonroad.scenario.lanelet:Lanelet.translate_rotate", old="        self._center_vertices = tmp.transpose()\n",
         new="", only="lanelet"),
    dict(name="scenario-skips-environment-obstacles", target="commonroad.scenario.scenario:Scenario.translate_rotate", old="for obstacle in self.obstacles:",
         new="for obstacle in self.static_obstacles + self.dynamic_obstacles + self.phantom_obstacle:", only="scenario.mix"),
]

"""Shared machinery of the XML properties (C01 round trip, C03 schema validity, C15 writer independence).

Skeleton scenarios are built through the public constructors with symbolic leaves, written by the real XMLFileWriter
(node builders) and read back by the real reader factories.  Symbolically the writer's tree is a DOM passthrough tree
(symex.dom) that is handed to the reader directly; concretely (replay / validation) the real lxml tree is serialised and
parsed, and validated with lxml against the shipped XSD."""
import os
import warnings
import xml.etree.ElementTree as ET

import numpy as np

import commonroad
import commonroad.common.reader.file_reader_xml as rd
import commonroad.common.writer.file_writer_interface as wi
import commonroad.common.writer.file_writer_xml as wr
from commonroad.common.common_lanelet import LaneletType, LineMarking, RoadUser, StopLine
from commonroad.common.util import AngleInterval, Interval, Time
from commonroad.geometry.shape import Circle, Polygon, Rectangle, Shape, ShapeGroup
from commonroad.planning.goal import GoalRegion
from commonroad.planning.planning_problem import PlanningProblem, PlanningProblemSet
from commonroad.prediction.prediction import Occupancy, SetBasedPrediction, TrajectoryPrediction
from commonroad.scenario import state as st
from commonroad.scenario.intersection import Intersection, IntersectionIncomingElement
from commonroad.scenario.lanelet import Lanelet, LaneletNetwork
from commonroad.scenario.obstacle import (DynamicObstacle, EnvironmentObstacle, ObstacleType, PhantomObstacle,
                                          StaticObstacle)
from commonroad.scenario.scenario import (Environment, GeoTransformation, Location, Scenario, ScenarioID, Tag, TimeOfDay,
                                          Underground, Weather)
from commonroad.scenario.traffic_light import (TrafficLight, TrafficLightCycle, TrafficLightCycleElement,
                                               TrafficLightDirection, TrafficLightState)
from commonroad.scenario.traffic_sign import TrafficSign, TrafficSignElement, TrafficSignIDGermany
from commonroad.scenario.trajectory import Trajectory

from harness import fixtures as fx
from symex import dom, fmt
from symex.core import Sym, SymBool, SymInt, SymReal

XSD = os.path.join(os.path.dirname(commonroad.__file__), "scenario_definition", "xml_definition_files", "XML_commonRoad_XSD.xsd")
B = 1000.0
TWO_PI = 6.283185307179586


def install_shims():
    wr.etree = dom
    wr.str = fmt.sym_str
    wr.format = fmt.sym_format


# ------------------------------------------------------------------------------------------------------------
# writer / reader drivers
# ------------------------------------------------------------------------------------------------------------
def write(V, scenario, pps, decimals, location=None):
    """the root node the writer builds (real node builders); symbolic: DOM tree, concrete: lxml tree"""
    w = wr.XMLFileWriter(scenario, pps, "author", "affiliation", "source", {Tag.URBAN}, location, decimals)
    w._write_header()
    w._add_all_objects_from_scenario()
    w._add_all_planning_problems_from_planning_problem_set()
    return w


def read(V, writer):
    """(scenario, planning problem set) read back from what the writer produced"""
    warnings.filterwarnings("ignore")
    if V.symbolic:
        r = rd.XMLFileReader("symbolic-dom")
        r._parse_file = lambda: None
        r._tree = dom.ElementTree(writer._root_node)
        return r.open()
    return rd.XMLFileReader(writer._dump()).open()


def schema_valid_concrete(writer):
    return wr.XMLFileWriter.check_validity_of_commonroad_file(writer._dump())


def precision(V, quick=(1, 4, 12)):
    ds = list(quick)
    return ds[V.choice("decimal_precision_index", len(ds))]


def base_scenario(dt=0.1):
    return Scenario(dt, ScenarioID.from_benchmark_id("DEU_Muc-1_2_T-1", "2020a"), location=Location())


# ------------------------------------------------------------------------------------------------------------
# comparison of an object read back with the original (public attributes)
# ------------------------------------------------------------------------------------------------------------
class Cmp:
    def __init__(self, V, decimals):
        self.V = V
        from fractions import Fraction

        self.tol = None if decimals is None else Fraction(1, 10 ** decimals)  # None: exact (bit-identical) comparison
        self.parts = []

    def add(self, path, cond):
        self.parts.append((path, cond))

    def real(self, path, got, exp):
        """|got - exp| < 10^-d"""
        V = self.V
        if got is None or exp is None:
            self.add(path, got is None and exp is None)
            return
        if self.tol is None:
            self.add(path, V.eq(got, exp) if isinstance(got, Sym) or isinstance(exp, Sym) else bool(got == exp))
            return
        d = got - exp
        if isinstance(d, Sym):
            self.add(path, V.And(d < self.tol, -d < self.tol))
        else:
            self.add(path, abs(d) < self.tol)

    def disc(self, path, got, exp):
        V = self.V
        if isinstance(got, Sym) or isinstance(exp, Sym):
            r = V.eq(got, exp)
            self.add(path, r)
        else:
            self.add(path, type(got) is type(exp) and got == exp if not isinstance(exp, (int, float)) else got == exp)

    def value(self, path, got, exp):
        """number, interval, None"""
        if isinstance(exp, Interval):
            if not isinstance(got, Interval) or type(got) is not type(exp):
                self.add(path + ":kind", False)
                return
            if _is_int(exp.start):
                self.disc(path + ".start", got.start, exp.start)
                self.disc(path + ".end", got.end, exp.end)
            else:
                self.real(path + ".start", got.start, exp.start)
                self.real(path + ".end", got.end, exp.end)
        elif exp is None:
            self.add(path, got is None)
        elif _is_int(exp):
            self.add(path + ":kind", not isinstance(got, Interval))
            if not isinstance(got, Interval):
                self.disc(path, got, exp)
        else:
            self.add(path + ":kind", not isinstance(got, Interval) and got is not None)
            if not isinstance(got, Interval) and got is not None:
                self.real(path, got, exp)

    def point(self, path, got, exp):
        if got is None or exp is None or len(got) != len(exp):
            self.add(path + ":len", got is None and exp is None)
            return
        for i in range(len(exp)):
            self.real(f"{path}[{i}]", got[i], exp[i])

    def polyline(self, path, got, exp):
        if len(got) != len(exp):
            self.add(path + ":len", False)
            return
        for i in range(len(exp)):
            self.point(f"{path}[{i}]", got[i], exp[i])

    def shape(self, path, got, exp):
        if type(got) is not type(exp):
            self.add(path + ":kind", False)
            return
        if isinstance(exp, Rectangle):
            self.real(path + ".length", got.length, exp.length)
            self.real(path + ".width", got.width, exp.width)
            self.real(path + ".orientation", got.orientation, exp.orientation)
            self.point(path + ".center", got.center, exp.center)
        elif isinstance(exp, Circle):
            self.real(path + ".radius", got.radius, exp.radius)
            self.point(path + ".center", got.center, exp.center)
        elif isinstance(exp, Polygon):
            self.polyline(path + ".vertices", got.vertices, exp.vertices)
        elif isinstance(exp, ShapeGroup):
            if len(got.shapes) != len(exp.shapes):
                self.add(path + ":len", False)
                return
            for i, (g, e) in enumerate(zip(got.shapes, exp.shapes)):
                self.shape(f"{path}[{i}]", g, e)

    def state(self, path, got, exp, initial=False):
        """attributes populated: identical sets (unset attributes of initial states read back as 0)"""
        exp_attrs = set(exp.used_attributes)
        got_attrs = set(got.used_attributes)
        if initial:
            extra = got_attrs - exp_attrs
            for a in extra:
                self.disc(f"{path}.{a}:default", getattr(got, a) if a != "position" else 0.0, 0.0)
            self.add(path + ":attributes", exp_attrs <= got_attrs)
        else:
            self.add(path + ":attributes", exp_attrs == got_attrs)
        for a in sorted(exp_attrs & got_attrs):
            g, e = getattr(got, a), getattr(exp, a)
            if a == "position":
                if isinstance(e, Shape):
                    self.shape(f"{path}.position", g, e)
                elif isinstance(g, Shape):
                    self.add(f"{path}.position:kind", False)
                else:
                    self.point(f"{path}.position", g, e)
            else:
                self.value(f"{path}.{a}", g, e)

    def signal(self, path, got, exp):
        if got is None or exp is None:
            self.add(path, got is None and exp is None)
            return
        for slot in st.SignalState.__slots__:
            hg, he = hasattr(got, slot), hasattr(exp, slot)
            self.add(f"{path}.{slot}:present", hg == he)
            if hg and he:
                self.disc(f"{path}.{slot}", getattr(got, slot), getattr(exp, slot))

    def prove(self, label):
        V = self.V
        V.prove(label, V.And([c for _, c in self.parts]) if self.parts else True)
        self.parts = []


def _is_int(x):
    return isinstance(x, (int, np.integer, SymInt)) and not isinstance(x, bool)


# ------------------------------------------------------------------------------------------------------------
# skeletons: (scenario, planning problem set, check(V, scenario', pps', decimals))
# ------------------------------------------------------------------------------------------------------------
REGIME = ["normal"]  # magnitude regime of all real leaves of the skeleton being built (set per obligation)


def real(V, name, lo=-B, hi=B):
    """a real leaf.  str(float) switches to exponent notation below 1e-4, and the writer branches on that for every
    coordinate; to keep the path tree linear all real leaves of one obligation are in the same regime:
    'normal' = 0 or |x| >= 1e-4, 'tiny' = 0 < |x| < 1e-4 (mixed regimes: leaves are formatted independently)"""
    if REGIME[0] == "normal":
        x = V.real(name, lo, hi)
        if V.symbolic:
            V.assume(V.Or(V.eq(x, 0.0), x >= 1e-4, x <= -1e-4))
        return x
    tlo = max(lo, -9.9e-5) if lo < 0 else max(lo, 1e-9)
    thi = min(hi, 9.9e-5)
    x = V.real(name, tlo, thi)
    if V.symbolic:
        V.assume(V.Not(V.eq(x, 0.0)))
    return x


def sk_lanelets(V):
    sc = base_scenario()
    # symbolic start vertices in small boxes that keep the lanelet polygon's orientation fixed (so that building the
    # polygon does not fork); the end vertices are concrete
    pts = {"l": [(real(V, "l0x", -1.0, 1.0), 1.5), (10.0, 1.5)],
           "c": [(real(V, "c0x", -1.0, 1.0), real(V, "c0y", -0.4, 0.4)), (10.0, 0.0)],
           "r": [(real(V, "r0x", -1.0, 1.0), -1.5), (10.0, -1.5)]}
    mk = lambda ps: np.array([[p[0], p[1]] for p in ps])
    marks = [LineMarking.SOLID, LineMarking.DASHED, LineMarking.BROAD_SOLID, LineMarking.NO_MARKING]
    ml = marks[V.choice("marking_left", len(marks))]
    stop = StopLine(np.array([real(V, "s0x"), real(V, "s0y")]), np.array([real(V, "s1x"), real(V, "s1y")]), LineMarking.SOLID, {10}, {11})
    la1 = Lanelet(mk(pts["l"]), mk(pts["c"]), mk(pts["r"]), 1, [], [2], 3, V.flag("adj_left_same_direction"), None, None, ml, LineMarking.DASHED,
                  stop, {LaneletType.URBAN, LaneletType.BUS_LANE}, {RoadUser.CAR, RoadUser.BUS}, {RoadUser.BICYCLE}, {10}, {11})
    la2 = fx.straight_lanelet(2, 10.0, 0.0, predecessor=[1], lanelet_type={LaneletType.HIGHWAY})
    la3 = fx.straight_lanelet(3, 0.0, 5.0, adjacent_right=1, adjacent_right_same_direction=True, lanelet_type={LaneletType.URBAN})
    net = LaneletNetwork()
    for la in (la1, la2, la3):
        net.add_lanelet(la)
    net.add_traffic_sign(fx.sign(10, first={1}), set())
    net.add_traffic_light(fx.light(11), set())
    sc.add_objects(net)

    def check(V, sc2, pps2, d):
        c = Cmp(V, d)
        n2 = sc2.lanelet_network
        c.add("lanelet ids", sorted(x.lanelet_id for x in n2.lanelets) == [1, 2, 3])
        g = n2.find_lanelet_by_id(1)
        if g is not None:
            c.polyline("left", g.left_vertices, la1.left_vertices)
            c.polyline("right", g.right_vertices, la1.right_vertices)
            c.add("markings", g.line_marking_left_vertices is la1.line_marking_left_vertices and g.line_marking_right_vertices is la1.line_marking_right_vertices)
            c.add("relations", set(g.successor) == {2} and g.predecessor == [] and g.adj_left == 3 and g.adj_right is None)
            c.disc("adj_left_same_direction", g.adj_left_same_direction, la1.adj_left_same_direction)
            c.add("types and users", g.lanelet_type == la1.lanelet_type and g.user_one_way == la1.user_one_way and g.user_bidirectional == la1.user_bidirectional)
            c.add("sign/light references", g.traffic_signs == {10} and g.traffic_lights == {11})
            c.add("stop line present", g.stop_line is not None)
            if g.stop_line is not None:
                c.point("stop line start", g.stop_line.start, stop.start)
                c.point("stop line end", g.stop_line.end, stop.end)
                c.add("stop line refs", g.stop_line.line_marking is LineMarking.SOLID and g.stop_line.traffic_sign_ref == {10} and g.stop_line.traffic_light_ref == {11})
        g3 = n2.find_lanelet_by_id(3)
        if g3 is not None:
            c.add("lanelet 3 adjacency", g3.adj_right == 1 and g3.adj_right_same_direction is True and g3.adj_left is None)
        c.prove("lanelets read back")

    return sc, PlanningProblemSet(), check


def sk_signs_lights(V):
    sc = base_scenario()
    net = LaneletNetwork()
    net.add_lanelet(fx.straight_lanelet(1, traffic_signs={10}, traffic_lights={11}, lanelet_type={LaneletType.URBAN}))
    sp, lp = (real(V, "sign_x"), real(V, "sign_y")), (real(V, "light_x"), real(V, "light_y"))
    virt = V.bool("sign_virtual")
    sign = TrafficSign(10, [TrafficSignElement(TrafficSignIDGermany.MAX_SPEED, ["30"]), TrafficSignElement(TrafficSignIDGermany.STOP)], {1},
                       np.array([sp[0], sp[1]]), virt)
    durs = [V.int(f"duration{i}", 1, 1000) for i in range(2)]
    off = V.int("time_offset", 0, 1000)
    act = V.bool("light_active")
    dirs = [TrafficLightDirection.ALL, TrafficLightDirection.LEFT, TrafficLightDirection.STRAIGHT_RIGHT]
    direction = dirs[V.choice("direction", len(dirs))]
    light = TrafficLight(11, np.array([lp[0], lp[1]]), TrafficLightCycle([TrafficLightCycleElement(TrafficLightState.RED, durs[0]),
                                                                         TrafficLightCycleElement(TrafficLightState.GREEN, durs[1])], off),
                         None, act, direction)
    net.add_traffic_sign(sign, set())
    net.add_traffic_light(light, set())
    sc.add_objects(net)

    def check(V, sc2, pps2, d):
        c = Cmp(V, d)
        s2, l2 = sc2.lanelet_network.find_traffic_sign_by_id(10), sc2.lanelet_network.find_traffic_light_by_id(11)
        c.add("sign and light present", s2 is not None and l2 is not None)
        if s2 is not None:
            c.disc("sign virtual flag", s2.virtual, virt)
            c.prove("traffic sign virtual flag read back")
            c.point("sign position", s2.position, sign.position)
            c.add("sign elements", [(e.traffic_sign_element_id, list(e.additional_values)) for e in s2.traffic_sign_elements] ==
                  [(e.traffic_sign_element_id, list(e.additional_values)) for e in sign.traffic_sign_elements])
        c.prove("traffic sign read back")
        if l2 is not None:
            c.point("light position", l2.position, light.position)
            c.disc("light active flag", l2.active, act)
            c.add("light direction", l2.direction is direction)
            cyc = l2.traffic_light_cycle
            c.add("cycle length", cyc is not None and len(cyc.cycle_elements) == 2)
            if cyc is not None and len(cyc.cycle_elements) == 2:
                for i in range(2):
                    c.disc(f"duration {i}", cyc.cycle_elements[i].duration, durs[i])
                    c.add(f"colour {i}", cyc.cycle_elements[i].state is light.traffic_light_cycle.cycle_elements[i].state)
                c.disc("time offset", cyc.time_offset, off)
        c.prove("traffic light read back")

    return sc, PlanningProblemSet(), check


def sk_intersection(V):
    sc = base_scenario()
    net = LaneletNetwork()
    for i, (x, y) in enumerate([(0.0, 0.0), (10.0, 0.0), (0.0, 5.0)], 1):
        net.add_lanelet(fx.straight_lanelet(i, x, y, lanelet_type={LaneletType.URBAN}))
    inter = Intersection(20, [IntersectionIncomingElement(21, {1}, {2}, {3}, set(), 22), IntersectionIncomingElement(22, {3}, set(), {2}, {1})], {2})
    net.add_intersection(inter)
    sc.add_objects(net)

    def check(V, sc2, pps2, d):
        c = Cmp(V, d)
        i2 = sc2.lanelet_network.find_intersection_by_id(20)
        c.add("intersection present", i2 is not None)
        if i2 is not None:
            c.add("crossings", i2.crossings == {2})
            g = {x.incoming_id: x for x in i2.incomings}
            c.add("incoming ids", set(g) == {21, 22})
            for e in inter.incomings:
                x = g.get(e.incoming_id)
                if x is not None:
                    c.add(f"incoming {e.incoming_id}", x.incoming_lanelets == e.incoming_lanelets and x.successors_right == e.successors_right and
                          x.successors_straight == e.successors_straight and x.successors_left == e.successors_left and x.left_of == e.left_of)
        c.prove("intersection read back")

    return sc, PlanningProblemSet(), check


SHAPES = ["rectangle", "circle", "polygon", "group"]


def mk_shape(V, kind, n, centred=False):
    if kind == "rectangle":
        if centred:
            return Rectangle(real(V, n + "_len", 1e-6, 100), real(V, n + "_wid", 1e-6, 100))
        return Rectangle(real(V, n + "_len", 1e-6, 100), real(V, n + "_wid", 1e-6, 100), np.array([real(V, n + "_cx"), real(V, n + "_cy")]),
                         real(V, n + "_theta", -TWO_PI, TWO_PI))
    if kind == "circle":
        if centred:
            return Circle(real(V, n + "_radius", 1e-6, 100))
        return Circle(real(V, n + "_radius", 1e-6, 100), np.array([real(V, n + "_cx"), real(V, n + "_cy")]))
    if kind == "polygon":
        # one symbolic vertex in a box that keeps the orientation of the ring fixed (constructing the polygon does not fork)
        ox, oy = real(V, n + "_ox", -0.5, 0.5), real(V, n + "_oy", -0.5, 0.5)
        return Polygon(np.array([[ox, oy], [1.0, 3.0], [4.0, 0.0]]))
    return ShapeGroup([mk_shape(V, "rectangle", n + "0", centred), mk_shape(V, "circle", n + "1", centred)])


def initial_state(V, n, t0=0, symbolic_orientation=True):
    return st.InitialState(time_step=t0, position=np.array([real(V, n + "_x"), real(V, n + "_y")]),
                           orientation=real(V, n + "_theta", -TWO_PI, TWO_PI) if symbolic_orientation else 0.25,
                           velocity=real(V, n + "_v", -100, 100), acceleration=real(V, n + "_a", -20, 20), yaw_rate=real(V, n + "_yaw", -5, 5),
                           slip_angle=real(V, n + "_slip", -2, 2))


def signal(V, n, t):
    """fully or partially populated signal state (which attributes are populated is part of the content)"""
    full = dict(indicator_left=V.bool(n + "_left"), indicator_right=False, braking_lights=V.bool(n + "_brake"),
                hazard_warning_lights=True, flashing_blue_lights=False, horn=V.bool(n + "_horn"))
    subsets = [list(full), ["braking_lights"], ["horn", "indicator_left"], ["hazard_warning_lights", "flashing_blue_lights", "indicator_right"]]
    keep = subsets[V.choice(n + "_populated", len(subsets))]
    return st.SignalState(time_step=t, **{k: v for k, v in full.items() if k in keep})


def sk_static(V, shape_kind):
    sc = base_scenario()
    shape = mk_shape(V, shape_kind, "shape")
    # (the reader places the shape at the initial state; for polygons a symbolic heading makes that placement a hard
    #  nonlinear problem that has nothing to do with the file format, so polygon-shaped obstacles get a concrete heading)
    init = initial_state(V, "init", 0, symbolic_orientation=shape_kind in ("rectangle", "circle"))
    types = [ObstacleType.PARKED_VEHICLE, ObstacleType.CONSTRUCTION_ZONE, ObstacleType.ROAD_BOUNDARY]
    ob = StaticObstacle(30, types[V.choice("type", len(types))], shape, init)
    sc.add_objects(ob)

    def check(V, sc2, pps2, d):
        c = Cmp(V, d)
        o2 = sc2.obstacle_by_id(30)
        c.add("static obstacle present", isinstance(o2, StaticObstacle))
        if isinstance(o2, StaticObstacle):
            c.add("type", o2.obstacle_type is ob.obstacle_type)
            c.shape("shape", o2.obstacle_shape, shape)
            c.state("initial state", o2.initial_state, init, initial=True)
            c.add("no prediction-like extras", o2.initial_signal_state is None and not o2.signal_series)
        c.prove("static obstacle read back")

    return sc, PlanningProblemSet(), check


STATE_KINDS = {
    "KS": lambda V, n, t: st.KSState(time_step=t, position=np.array([real(V, n + "_x"), real(V, n + "_y")]), orientation=real(V, n + "_th", -TWO_PI, TWO_PI),
                                      velocity=real(V, n + "_v", -100, 100), steering_angle=real(V, n + "_delta", -1, 1)),
    "PM": lambda V, n, t: st.PMState(time_step=t, position=np.array([real(V, n + "_x"), real(V, n + "_y")]), velocity=real(V, n + "_v", -100, 100),
                                      velocity_y=real(V, n + "_vy", -100, 100)),
    "ST": lambda V, n, t: st.STState(time_step=t, position=np.array([real(V, n + "_x"), real(V, n + "_y")]), orientation=real(V, n + "_th", -TWO_PI, TWO_PI),
                                      velocity=real(V, n + "_v", -100, 100), steering_angle=real(V, n + "_delta", -1, 1), yaw_rate=real(V, n + "_yaw", -5, 5),
                                      slip_angle=real(V, n + "_slip", -2, 2)),
    "KST": lambda V, n, t: st.KSTState(time_step=t, position=np.array([real(V, n + "_x"), real(V, n + "_y")]), orientation=real(V, n + "_th", -TWO_PI, TWO_PI),
                                        velocity=real(V, n + "_v", -100, 100), steering_angle=real(V, n + "_delta", -1, 1), hitch_angle=real(V, n + "_hitch", -1, 1)),
    "ExtendedPM": lambda V, n, t: st.ExtendedPMState(time_step=t, position=np.array([real(V, n + "_x"), real(V, n + "_y")]), orientation=real(V, n + "_th", -TWO_PI, TWO_PI),
                                                      velocity=real(V, n + "_v", -100, 100), acceleration=real(V, n + "_a", -20, 20)),
    "Custom": lambda V, n, t: st.CustomState(time_step=t, position=np.array([real(V, n + "_x"), real(V, n + "_y")]), orientation=real(V, n + "_th", -TWO_PI, TWO_PI),
                                              velocity=real(V, n + "_v", -100, 100), jerk=real(V, n + "_jerk", -10, 10)),
    # attributes of the multi-body model whose XML names carry two capitals in a row (velocityYFront, positionZRear)
    "CustomMB": lambda V, n, t: st.CustomState(time_step=t, position=np.array([real(V, n + "_x"), real(V, n + "_y")]), orientation=real(V, n + "_th", -TWO_PI, TWO_PI),
                                                velocity=real(V, n + "_v", -100, 100), velocity_y_front=real(V, n + "_vyf", -10, 10),
                                                position_z_rear=real(V, n + "_pzr", -1, 1), yaw_rate=real(V, n + "_yaw", -5, 5),
                                                delta_y_f=real(V, n + "_dyf", -1, 1), delta_y_r=real(V, n + "_dyr", -1, 1)),
}


def sk_dynamic_trajectory(V, state_kind, with_signals=False):
    sc = base_scenario()
    shape = mk_shape(V, "rectangle", "shape", centred=True)
    t0 = 0  # the schema admits only 0 as the time of an initial state
    t1 = V.int("t1", 1, 1000)
    init = initial_state(V, "init", t0)
    states = [STATE_KINDS[state_kind](V, f"s{i}", t1 + i - 1) for i in (1, 2)]
    kw = {}
    if with_signals:
        kw = dict(initial_signal_state=signal(V, "sig0", t0), signal_series=[signal(V, "sig1", t1)])
    ob = DynamicObstacle(31, ObstacleType.CAR, shape, init, TrajectoryPrediction(Trajectory(t1, states), shape), **kw)
    sc.add_objects(ob)

    def check(V, sc2, pps2, d):
        c = Cmp(V, d)
        o2 = sc2.obstacle_by_id(31)
        c.add("dynamic obstacle present", isinstance(o2, DynamicObstacle))
        if isinstance(o2, DynamicObstacle):
            c.shape("shape", o2.obstacle_shape, shape)
            c.state("initial state", o2.initial_state, init, initial=True)
            c.add("trajectory prediction", isinstance(o2.prediction, TrajectoryPrediction))
            if isinstance(o2.prediction, TrajectoryPrediction):
                tr = o2.prediction.trajectory
                c.disc("initial time step of the trajectory", tr.initial_time_step, t1)
                c.add("number of states", len(tr.state_list) == 2)
                for i, (g, e) in enumerate(zip(tr.state_list, states)):
                    c.add(f"state {i} class", type(g) is type(e))
                    c.state(f"state {i}", g, e)
            c.prove("dynamic obstacle with trajectory read back")
            if with_signals:
                c.signal("initial signal state", o2.initial_signal_state, ob.initial_signal_state)
                c.add("signal series length", len(o2.signal_series or []) == 1)
                if len(o2.signal_series or []) == 1:
                    c.signal("signal series[0]", o2.signal_series[0], ob.signal_series[0])
                c.prove("signal states read back")
        else:
            c.prove("dynamic obstacle with trajectory read back")

    return sc, PlanningProblemSet(), check


def sk_dynamic_setbased(V):
    sc = base_scenario()
    shape = mk_shape(V, "circle", "shape", centred=True)
    t0 = 0
    t1 = V.int("t1", 1, 1000)
    init = initial_state(V, "init", t0)
    occs = [Occupancy(t1, mk_shape(V, "rectangle", "occ0")), Occupancy(Interval(t1 + 1, t1 + 3), mk_shape(V, "polygon", "occ1")),
            Occupancy(t1 + 4, mk_shape(V, "group", "occ2"))]
    ob = DynamicObstacle(32, ObstacleType.PEDESTRIAN, shape, init, SetBasedPrediction(t1, occs))
    ph = PhantomObstacle(33, SetBasedPrediction(t1, [Occupancy(t1, mk_shape(V, "circle", "ph"))]))
    env = EnvironmentObstacle(34, ObstacleType.BUILDING, mk_shape(V, "polygon", "env"))
    sc.add_objects([ob, ph, env])

    def check(V, sc2, pps2, d):
        c = Cmp(V, d)
        o2 = sc2.obstacle_by_id(32)
        c.add("dynamic obstacle present", isinstance(o2, DynamicObstacle) and isinstance(o2.prediction, SetBasedPrediction))
        if isinstance(o2, DynamicObstacle) and isinstance(o2.prediction, SetBasedPrediction):
            c.shape("shape", o2.obstacle_shape, shape)
            c.state("initial state", o2.initial_state, init, initial=True)
            c.add("number of occupancies", len(o2.prediction.occupancy_set) == 3)
            for i, (g, e) in enumerate(zip(o2.prediction.occupancy_set, occs)):
                c.value(f"occupancy {i} time", g.time_step, e.time_step)
                c.shape(f"occupancy {i} shape", g.shape, e.shape)
        c.prove("dynamic obstacle with set-based prediction read back")
        p2, e2 = sc2.obstacle_by_id(33), sc2.obstacle_by_id(34)
        c.add("phantom and environment obstacle present", isinstance(p2, PhantomObstacle) and isinstance(e2, EnvironmentObstacle))
        if isinstance(p2, PhantomObstacle) and p2.prediction is not None:
            c.add("phantom occupancies", len(p2.prediction.occupancy_set) == 1)
            c.shape("phantom occupancy", p2.prediction.occupancy_set[0].shape, ph.prediction.occupancy_set[0].shape)
            c.value("phantom time", p2.prediction.occupancy_set[0].time_step, t1)
        if isinstance(e2, EnvironmentObstacle):
            c.add("environment type", e2.obstacle_type is ObstacleType.BUILDING)
            c.shape("environment shape", e2.obstacle_shape, env.obstacle_shape)
        c.prove("phantom and environment obstacles read back")

    return sc, PlanningProblemSet(), check


def sk_uncertain(V):
    sc = base_scenario()
    shape = mk_shape(V, "circle", "shape", centred=True)
    t0 = 0
    lo, hi = real(V, "o_lo", -3, 3), real(V, "o_hi", -3, 3)
    V.assume(lo <= hi)
    vlo, vhi = real(V, "v_lo", -50, 50), real(V, "v_hi", -50, 50)
    V.assume(vlo <= vhi)
    region = Rectangle(real(V, "region_len", 1e-6, 100), real(V, "region_wid", 1e-6, 100), np.array([real(V, "region_cx"), real(V, "region_cy")]), 0.25)
    # (the library computes the enclosing occupancy of an uncertain state when the obstacle is built: with a rectangular region AND a
    #  symbolic heading that is a rotation by a symbolic angle - nonlinear arithmetic unrelated to the file format; the rectangular
    #  region therefore comes with a concrete orientation interval, the symbolic interval with the circular region of the next state)
    init = st.InitialState(time_step=t0, position=region, orientation=AngleInterval(-0.5, 0.75), velocity=Interval(vlo, vhi),
                           acceleration=0.5, yaw_rate=0.0, slip_angle=0.0)
    s1 = st.KSState(time_step=t0 + 1, position=mk_shape(V, "circle", "region1"), orientation=AngleInterval(lo, hi), velocity=Interval(vlo, vhi),
                    steering_angle=Interval(-0.5, 0.25))
    ob = DynamicObstacle(35, ObstacleType.CAR, shape, init, TrajectoryPrediction(Trajectory(t0 + 1, [s1]), shape))
    sc.add_objects(ob)

    def check(V, sc2, pps2, d):
        c = Cmp(V, d)
        o2 = sc2.obstacle_by_id(35)
        c.add("obstacle present", isinstance(o2, DynamicObstacle) and isinstance(o2.prediction, TrajectoryPrediction))
        if isinstance(o2, DynamicObstacle) and isinstance(o2.prediction, TrajectoryPrediction):
            c.state("uncertain initial state", o2.initial_state, init, initial=True)
            c.add("one trajectory state", len(o2.prediction.trajectory.state_list) == 1)
            if len(o2.prediction.trajectory.state_list) == 1:
                c.state("uncertain trajectory state", o2.prediction.trajectory.state_list[0], s1)
        c.prove("region / interval valued states read back")

    return sc, PlanningProblemSet(), check


def sk_planning(V, goal_kind):
    sc = base_scenario()
    net = LaneletNetwork()
    net.add_lanelet(fx.straight_lanelet(1, lanelet_type={LaneletType.URBAN}))
    net.add_lanelet(fx.straight_lanelet(2, 10.0, 0.0, lanelet_type={LaneletType.URBAN}))
    sc.add_objects(net)
    init = initial_state(V, "init", 0)
    t_lo, t_hi = V.int("goal_t_lo", 0, 1000), V.int("goal_t_hi", 1, 2000)
    V.assume(t_lo <= t_hi)
    kw = dict(time_step=Interval(t_lo, t_hi))
    lanelets = None
    second = goal_kind == "lanelets-second"  # the goal state without a position comes first, the lanelet goal second
    if goal_kind in ("lanelets", "lanelets-second"):
        kw["position"] = ShapeGroup([net.find_lanelet_by_id(1).polygon, net.find_lanelet_by_id(2).polygon])
        lanelets = {1 if second else 0: [1, 2]}
    elif goal_kind == "group":
        # (a goal position may list several shapes of one kind only)
        kw["position"] = ShapeGroup([mk_shape(V, "rectangle", "goal0"), mk_shape(V, "rectangle", "goal1")])
    elif goal_kind != "none":
        kw["position"] = mk_shape(V, goal_kind, "goal")
    if goal_kind in ("rectangle", "none"):
        lo, hi = real(V, "o_lo", -3, 3), real(V, "o_hi", -3, 3)
        V.assume(lo <= hi)
        kw["orientation"] = AngleInterval(lo, hi)
        vlo, vhi = real(V, "v_lo", -50, 50), real(V, "v_hi", -50, 50)
        V.assume(vlo <= vhi)
        kw["velocity"] = Interval(vlo, vhi)
    g1 = st.CustomState(**kw)
    g2 = st.CustomState(time_step=Interval(3, 9))
    pp = PlanningProblem(100, init, GoalRegion([g2, g1] if second else [g1, g2], lanelets))
    pps = PlanningProblemSet([pp])

    def check(V, sc2, pps2, d):
        c = Cmp(V, d)
        c.add("planning problem present", 100 in pps2.planning_problem_dict)
        if 100 in pps2.planning_problem_dict:
            p2 = pps2.find_planning_problem_by_id(100)
            c.state("initial state", p2.initial_state, init, initial=True)
            c.add("number of goal states", len(p2.goal.state_list) == 2)
            if len(p2.goal.state_list) == 2:
                if second:
                    a, b = p2.goal.state_list[1], g1
                    c.add("goal lanelets belong to the second goal state", p2.goal.lanelets_of_goal_position is not None and
                          {k: list(v) for k, v in p2.goal.lanelets_of_goal_position.items() if v} == {1: [1, 2]})
                    c.value("goal time", a.time_step, b.time_step)
                    c.add("goal position is the group of lanelet polygons", isinstance(a.position, ShapeGroup) and len(a.position.shapes) == 2)
                    c.state("goal state 0", p2.goal.state_list[0], g2)
                elif goal_kind == "lanelets":
                    a, b = p2.goal.state_list[0], g1
                    c.add("goal lanelets", p2.goal.lanelets_of_goal_position == {0: [1, 2]})
                    c.value("goal time", a.time_step, b.time_step)
                    c.add("goal position is the group of lanelet polygons", isinstance(a.position, ShapeGroup) and len(a.position.shapes) == 2)
                else:
                    c.add("no goal lanelets", p2.goal.lanelets_of_goal_position is None)
                    c.state("goal state 0", p2.goal.state_list[0], g1)
                if not second:
                    c.state("goal state 1", p2.goal.state_list[1], g2)
        c.prove("planning problem read back")

    return sc, pps, check


def sk_header(V):
    dt = real(V, "dt", 1e-6, 10.0)
    sc = Scenario(dt, ScenarioID.from_benchmark_id("DEU_Muc-1_2_T-1", "2020a"))
    geo = GeoTransformation("+proj=utm +zone=32", real(V, "geo_x"), real(V, "geo_y"), real(V, "geo_rot", -3, 3), real(V, "geo_scale", 1e-9, 100))
    env = Environment(Time(13, 45), TimeOfDay.NIGHT, Weather.LIGHT_RAIN, Underground.WET)
    loc = Location(V.int("geo_name_id", 1, 10 ** 7), real(V, "lat", -90, 90), real(V, "lon", -180, 180), geo, env)
    sc.add_objects(fx.straight_lanelet(1, lanelet_type={LaneletType.URBAN}))

    def check(V, sc2, pps2, d):
        c = Cmp(V, 12 if d is not None else None)  # str()-formatted leaves are written in full precision
        c.real("dt", sc2.dt, dt)
        c.add("scenario id", str(sc2.scenario_id) == "DEU_Muc-1_2_T-1" and sc2.author == "author" and sc2.affiliation == "affiliation" and sc2.source == "source")
        c.add("tags", sc2.tags == {Tag.URBAN})
        l2 = sc2.location
        c.add("location present", l2 is not None and l2.geo_transformation is not None and l2.environment is not None)
        if l2 is not None and l2.geo_transformation is not None and l2.environment is not None:
            c.disc("geo name id", l2.geo_name_id, loc.geo_name_id)
            c.real("latitude", l2.gps_latitude, loc.gps_latitude)
            c.real("longitude", l2.gps_longitude, loc.gps_longitude)
            g2 = l2.geo_transformation
            c.add("geo reference", g2.geo_reference == geo.geo_reference)
            for a in ("x_translation", "y_translation", "z_rotation", "scaling"):
                c.real("geo " + a, getattr(g2, a), getattr(geo, a))
            e2 = l2.environment
            c.add("environment", e2.time_of_day is TimeOfDay.NIGHT and e2.weather is Weather.LIGHT_RAIN and e2.underground is Underground.WET and
                  e2.time.hours == 13 and e2.time.minutes == 45)
        c.prove("header, location and environment read back")

    return sc, PlanningProblemSet(), check, loc


SKELETONS = {
    "lanelets": sk_lanelets,
    "signs-lights": sk_signs_lights,
    "intersection": sk_intersection,
    "planning.rectangle": lambda V: sk_planning(V, "rectangle"),
    "planning.circle": lambda V: sk_planning(V, "circle"),
    "planning.polygon": lambda V: sk_planning(V, "polygon"),
    "planning.group": lambda V: sk_planning(V, "group"),
    "planning.lanelets": lambda V: sk_planning(V, "lanelets"),
    "planning.lanelets-second": lambda V: sk_planning(V, "lanelets-second"),
    "planning.no-position": lambda V: sk_planning(V, "none"),
    "dynamic.setbased-phantom-environment": sk_dynamic_setbased,
    "dynamic.uncertain": sk_uncertain,
    "dynamic.signals": lambda V: sk_dynamic_trajectory(V, "KS", with_signals=True),
    "header-location": sk_header,
}
for _k in SHAPES:
    SKELETONS[f"static.{_k}"] = (lambda k: lambda V: sk_static(V, k))(_k)
for _k in STATE_KINDS:
    SKELETONS[f"dynamic.trajectory.{_k}"] = (lambda k: lambda V: sk_dynamic_trajectory(V, k))(_k)


def build(V, name):
    out = SKELETONS[name](V)
    sc, pps, check = out[:3]
    loc = out[3] if len(out) > 3 else None
    return sc, pps, check, loc

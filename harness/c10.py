"""C10 - Removing or cutting out network elements leaves no dangling references.

The relation structure of a small network (3 lanelets, 2 signs, 1 light, 1 intersection) is symbolic: membership flags of
one relation kind at a time are solver variables (materialised at construction), the removed element / the cut-out
selection is a solver-enumerated choice."""
import copy
import warnings

import numpy as np

from commonroad.common.common_lanelet import LaneletType, LineMarking, StopLine
from commonroad.geometry.shape import Rectangle
from commonroad.scenario.intersection import Intersection, IntersectionIncomingElement
from commonroad.scenario.lanelet import LaneletNetwork
from commonroad.scenario.scenario import Scenario

from harness import fixtures as fx
from symex.api import obligation

ASSUMPTIONS = ["universe: lanelets 1,2,3 (types urban / highway / urban+sidewalk; 1 and 2 in a row, 3 parallel to 1), signs 10, 11, "
               "light 12, intersection 20 with incomings 21, 22",
               "one relation kind is symbolic per obligation, the others are fixed to a populated default (the cleanup code "
               "handles each kind by an independent statement)",
               "well-formedness: stop lines reference only signs / lights their lanelet references"]
OUTSIDE = ["networks larger than the universe", "left_of references between incoming elements", "adjacent areas"]
STUBS = ["shapely-lite / STRtree-lite"]
F = ["commonroad/scenario/lanelet.py:LaneletNetwork.remove_lanelet", "commonroad/scenario/lanelet.py:LaneletNetwork.cleanup_lanelet_references",
     "commonroad/scenario/lanelet.py:LaneletNetwork.remove_traffic_sign", "commonroad/scenario/lanelet.py:LaneletNetwork.cleanup_traffic_sign_references",
     "commonroad/scenario/lanelet.py:LaneletNetwork.remove_traffic_light", "commonroad/scenario/lanelet.py:LaneletNetwork.cleanup_traffic_light_references",
     "commonroad/scenario/lanelet.py:LaneletNetwork.remove_intersection", "commonroad/scenario/lanelet.py:LaneletNetwork.create_from_lanelet_network",
     "commonroad/scenario/lanelet.py:LaneletNetwork.create_from_lanelet_list", "commonroad/scenario/scenario.py:Scenario.remove_lanelet",
     "commonroad/scenario/scenario.py:Scenario.remove_hanging_lanelet_members"]

LIDS = [1, 2, 3]
# flags that are symbolic already in the quick tier (the thorough tier makes every flag of the kind symbolic)
QUICK_FLAGS = {"succ.1.2", "succ.2.1", "succ.3.2", "succ.1.3", "succ.2.3",
               "signs.1.10", "signs.2.10", "signs.3.11", "signs.1.11", "signs.stop.1.10", "signs.stop.3.11",
               "lights.1", "lights.2", "lights.3", "lights.stop.1", "lights.stop.3", "lights.stop-sign-ref-none.3",
               "signs.stop-light-ref-none.3",
               "intersection.in21.1", "intersection.in21.2", "intersection.st21.2", "intersection.st21.3",
               "intersection.cross.3", "intersection.in22.3"}
# 18 symbolic intersection flags are 262144 structures per obligation, beyond the thorough budget: these five stay at their defaults
FULL_SKIP = {"intersection.le21.1", "intersection.le21.2", "intersection.ri22.2", "intersection.ri22.3", "intersection.in22.2"}
# the cut-out obligations fork additionally on the cut-out itself: three more intersection flags stay at their defaults there
CUTOUT_SKIP = {"intersection.st21.1", "intersection.cross.1", "intersection.cross.2"}
TYPES = {1: {LaneletType.URBAN}, 2: {LaneletType.HIGHWAY}, 3: {LaneletType.URBAN, LaneletType.SIDEWALK}}
GEOM = {1: (0.0, 0.0), 2: (10.0, 0.0), 3: (0.0, 5.0)}  # x0, y0 of 10 x 3 lanelets
KINDS = ["succ", "adj", "signs", "lights", "intersection"]


class Spec:
    """the relation structure (plain Python data), built from symbolic flags for one kind and defaults for the rest"""

    def __init__(self, V, kind, full=False, extra_skip=()):
        def f(name, default):
            if name.split(".")[0] != kind or not (full or name in QUICK_FLAGS) or name in FULL_SKIP or name in extra_skip:
                return default
            return V.flag(name)

        self.full = full
        self.succ = {i: {j for j in LIDS if j != i and f(f"succ.{i}.{j}", (i, j) in ((1, 2), (3, 2)))} for i in LIDS}
        self.pred = {i: {j for j in LIDS if i in self.succ[j]} for i in LIDS}
        if kind == "adj":
            dl, dr = {1: 3, 2: None, 3: None}, {1: None, 2: None, 3: 1}
            opts = {i: [None] + [j for j in LIDS if j != i] for i in LIDS}
            self.adj_left = {i: opts[i][V.choice(f"adj.left.{i}", 3)] if (full or i in (1, 2)) else dl[i] for i in LIDS}
            self.adj_right = {i: opts[i][V.choice(f"adj.right.{i}", 3)] if (full or i in (2, 3)) else dr[i] for i in LIDS}
        else:
            self.adj_left = {1: 3, 2: None, 3: None}
            self.adj_right = {1: None, 2: None, 3: 1}
        self.signs = {i: {s for s in (10, 11) if f(f"signs.{i}.{s}", (i, s) in ((1, 10), (2, 10), (3, 11)))} for i in LIDS}
        self.lights = {i: {12} if f(f"lights.{i}", i in (1, 2)) else set() for i in LIDS}
        # stop lines on lanelets 1 and 3, referencing a subset of what the lanelet references
        self.stop_sign = {i: {s for s in self.signs[i] if f(f"signs.stop.{i}.{s}", True)} for i in (1, 3)}
        self.stop_light = {i: {t for t in self.lights[i] if f(f"lights.stop.{i}", True)} for i in (1, 3)}
        # programmatically built stop lines may leave a reference set at its default None
        self.stop_sign_none = f("lights.stop-sign-ref-none.3", False)
        self.stop_light_none = f("signs.stop-light-ref-none.3", False)
        g = lambda name, default: f("intersection." + name, default)
        self.inc = {21: dict(lanelets={i for i in LIDS if g(f"in21.{i}", i == 1)}, straight={i for i in LIDS if g(f"st21.{i}", i == 2)},
                             left={i for i in LIDS if g(f"le21.{i}", i == 3)}, right=set()),
                    22: dict(lanelets={i for i in LIDS if g(f"in22.{i}", i == 3)}, straight={2}, left=set(),
                             right={i for i in LIDS if g(f"ri22.{i}", i == 1)})}
        self.crossings = {i for i in LIDS if g(f"cross.{i}", i == 3)}

    def build(self):
        net = LaneletNetwork()
        for i in LIDS:
            stop = None
            if i in (1, 3):
                x0, y0 = GEOM[i]
                sref = None if (i == 3 and self.stop_sign_none and not self.stop_sign[i]) else set(self.stop_sign[i])
                lref = None if (i == 3 and self.stop_light_none and not self.stop_light[i]) else set(self.stop_light[i])
                stop = StopLine(np.array([x0 + 9.0, y0 - 1.5]), np.array([x0 + 9.0, y0 + 1.5]), LineMarking.SOLID, sref, lref)
            kw = dict(predecessor=sorted(self.pred[i]), successor=sorted(self.succ[i]), lanelet_type=set(TYPES[i]),
                      traffic_signs=set(self.signs[i]), traffic_lights=set(self.lights[i]), stop_line=stop)
            if self.adj_left[i] is not None:
                kw.update(adjacent_left=self.adj_left[i], adjacent_left_same_direction=True)
            if self.adj_right[i] is not None:
                kw.update(adjacent_right=self.adj_right[i], adjacent_right_same_direction=False)
            net.add_lanelet(fx.straight_lanelet(i, *GEOM[i], **kw))
        net.add_traffic_sign(fx.sign(10, first={1}), set())
        net.add_traffic_sign(fx.sign(11), set())
        net.add_traffic_light(fx.light(12), set())
        incs = [IntersectionIncomingElement(k, set(v["lanelets"]), set(v["right"]), set(v["straight"]), set(v["left"]))
                for k, v in self.inc.items()]
        net.add_intersection(Intersection(20, incs, set(self.crossings)))
        return net


def snapshot(net):
    """all id-valued attributes, as plain data"""
    out = {"lanelets": {}, "signs": sorted(s.traffic_sign_id for s in net.traffic_signs),
           "lights": sorted(t.traffic_light_id for t in net.traffic_lights), "inter": {}}
    for la in net.lanelets:
        sl = la.stop_line
        out["lanelets"][la.lanelet_id] = dict(
            pred=set(la.predecessor), succ=set(la.successor), adj_left=la.adj_left, adj_right=la.adj_right,
            adj_left_dir=la.adj_left_same_direction, adj_right_dir=la.adj_right_same_direction,
            signs=set(la.traffic_signs), lights=set(la.traffic_lights),
            stop_signs=None if sl is None or sl.traffic_sign_ref is None else set(sl.traffic_sign_ref),
            stop_lights=None if sl is None or sl.traffic_light_ref is None else set(sl.traffic_light_ref),
            types=set(la.lanelet_type), left=la.left_vertices.tolist(), right=la.right_vertices.tolist())
    for it in net.intersections:
        out["inter"][it.intersection_id] = dict(
            crossings=set(it.crossings),
            inc={i.incoming_id: dict(lanelets=set(i.incoming_lanelets), straight=set(i.successors_straight),
                                     left=set(i.successors_left), right=set(i.successors_right)) for i in it.incomings})
    return out


def expected_after(before, gone_lanelets=(), gone_signs=(), gone_lights=(), gone_inter=()):
    """what the id-valued attributes must be once the given elements are gone (everything else untouched)"""
    gl, gs, gt = set(gone_lanelets), set(gone_signs), set(gone_lights)
    exp = copy.deepcopy(before)
    for lid in gl:
        exp["lanelets"].pop(lid, None)
    exp["signs"] = [s for s in exp["signs"] if s not in gs]
    exp["lights"] = [t for t in exp["lights"] if t not in gt]
    for la in exp["lanelets"].values():
        la["pred"] -= gl
        la["succ"] -= gl
        if la["adj_left"] in gl:
            la["adj_left"], la["adj_left_dir"] = None, None
        if la["adj_right"] in gl:
            la["adj_right"], la["adj_right_dir"] = None, None
        la["signs"] -= gs
        la["lights"] -= gt
        if la["stop_signs"] is not None:
            la["stop_signs"] -= gs
        if la["stop_lights"] is not None:
            la["stop_lights"] -= gt
    for iid in gone_inter:
        exp["inter"].pop(iid, None)
    for it in exp["inter"].values():
        it["crossings"] -= gl
        for inc in it["inc"].values():
            for k in inc:
                inc[k] -= gl
    return exp


def dangling(snap):
    """references to ids that are not present in the snapshot"""
    l_ids, s_ids, t_ids = set(snap["lanelets"]), set(snap["signs"]), set(snap["lights"])
    bad = []
    for lid, la in snap["lanelets"].items():
        for k in ("pred", "succ"):
            bad += [(lid, k, x) for x in la[k] - l_ids]
        for k in ("adj_left", "adj_right"):
            if la[k] is not None and la[k] not in l_ids:
                bad.append((lid, k, la[k]))
        bad += [(lid, "signs", x) for x in la["signs"] - s_ids]
        bad += [(lid, "lights", x) for x in la["lights"] - t_ids]
        bad += [(lid, "stop_signs", x) for x in (la["stop_signs"] or set()) - s_ids]
        bad += [(lid, "stop_lights", x) for x in (la["stop_lights"] or set()) - t_ids]
    for iid, it in snap["inter"].items():
        bad += [(iid, "crossings", x) for x in it["crossings"] - l_ids]
        for k, inc in it["inc"].items():
            for kk, v in inc.items():
                bad += [(k, kk, x) for x in v - l_ids]
    return bad


OPS = ["rm-lanelet-1", "rm-lanelet-2", "rm-lanelet-3", "rm-sign-10", "rm-sign-11", "rm-light-12", "rm-intersection-20",
       "scenario-rm-lanelet-1", "scenario-rm-lanelet-3"]


def _mk_remove(kind, op, full):
    @obligation("C10", f"remove.{kind}.{OPS[op]}{'.full' if full else ''}", tier="thorough" if full else "quick", functions=F,
                max_paths=20000 if full else 3000,
                bounds=f"relation kind '{kind}' symbolic ({'all' if full else 'the quick subset of'} membership flags); operation {OPS[op]}")
    def ob(V):
        warnings.filterwarnings("ignore")
        spec = Spec(V, kind, full)
        net = spec.build()
        before = snapshot(net)
        if op < 3:
            net.remove_lanelet(LIDS[op], rtree=bool(V.flag("rebuild_spatial_index")))  # the references are cleaned either way
            exp = expected_after(before, gone_lanelets=[LIDS[op]])
        elif op < 5:
            net.remove_traffic_sign((10, 11)[op - 3])
            exp = expected_after(before, gone_signs=[(10, 11)[op - 3]])
        elif op == 5:
            net.remove_traffic_light(12)
            exp = expected_after(before, gone_lights=[12])
        elif op == 6:
            net.remove_intersection(20)
            exp = expected_after(before, gone_inter=[20])
        else:
            # through the scenario: signs / lights go with the lanelet iff no remaining lanelet references them
            lid = (1, 3)[op - 7]
            sc = Scenario(0.1)
            sc.add_objects(net)
            sc.remove_lanelet(net.find_lanelet_by_id(lid))
            rest = [i for i in LIDS if i != lid]
            gs = {s for s in before["lanelets"][lid]["signs"] if not any(s in before["lanelets"][i]["signs"] for i in rest)}
            gt = {t for t in before["lanelets"][lid]["lights"] if not any(t in before["lanelets"][i]["lights"] for i in rest)}
            exp = expected_after(before, gone_lanelets=[lid], gone_signs=gs, gone_lights=gt)
            net = sc.lanelet_network
        after = snapshot(net)
        V.prove("no remaining element refers to a removed id", dangling(after) == [])
        V.prove("survivors and the relations among them are untouched", after == exp)

    return ob


for _k in KINDS:
    for _op in range(len(OPS)):
        _mk_remove(_k, _op, False)
        _mk_remove(_k, _op, True)


HOWS = ["by-type", "by-shape", "from-list"]


def _mk_cut(kind, how, full):
    @obligation("C10", f"cutout.{kind}.{HOWS[how]}{'.full' if full else ''}", tier="thorough" if full else "quick", functions=F,
                max_paths=30000 if full else 4000,
                bounds=f"relation kind '{kind}' symbolic ({'all' if full else 'the quick subset of'} flags); cut-out "
                       + ["by excluded lanelet types (4 choices)", "by a 4x2 query rectangle at a symbolic position",
                          "from a lanelet list (7 subsets)"][how])
    def ob(V):
        warnings.filterwarnings("ignore")
        spec = Spec(V, kind, full, CUTOUT_SKIP)
        net = spec.build()
        before = snapshot(net)
        if how == 0:
            excl = [{LaneletType.HIGHWAY}, {LaneletType.SIDEWALK}, {LaneletType.URBAN}, {LaneletType.SIDEWALK, LaneletType.HIGHWAY}][
                V.choice("excluded", 4)]
            keep = {i for i in LIDS if not (TYPES[i] & excl)}
            new = LaneletNetwork.create_from_lanelet_network(net, exclude_lanelet_types=excl)
        elif how == 1:
            cx, cy = V.real("qx", -10, 30), V.real("qy", -10, 15)
            if V.symbolic:
                # stay away from touching configurations (rounding band of the geometric test)
                for i in LIDS:
                    x0, y0 = GEOM[i]
                    for e in (cx + 2 - x0, cx - 2 - (x0 + 10), cy + 1 - (y0 - 1.5), cy - 1 - (y0 + 1.5)):
                        V.assume(V.Or(e > 1e-6, e < -1e-6))
            q = Rectangle(4.0, 2.0, np.array([cx, cy]))
            keep = set()
            for i in LIDS:
                x0, y0 = GEOM[i]
                if bool(V.And(cx + 2 >= x0, cx - 2 <= x0 + 10, cy + 1 >= y0 - 1.5, cy - 1 <= y0 + 1.5)):
                    keep.add(i)
            new = LaneletNetwork.create_from_lanelet_network(net, shape_input=q)
        else:
            sub = 1 + V.choice("subset", 7)
            keep = {i for b, i in enumerate(LIDS) if sub >> b & 1}
            new = LaneletNetwork.create_from_lanelet_list([net.find_lanelet_by_id(i) for i in sorted(keep)])
        after = snapshot(new)
        V.prove("cut-out keeps exactly the selected lanelets", set(after["lanelets"]) == keep)
        V.prove("cut-out has no dangling lanelet references",
                [b for b in dangling(after) if b[1] not in ("signs", "lights", "stop_signs", "stop_lights")] == [])
        if how != 2:
            V.prove("cut-out has no dangling sign / light references", dangling(after) == [])
            # signs / lights are kept iff a kept lanelet references them
            ks = {s for i in keep for s in before["lanelets"][i]["signs"]}
            kt = {t for i in keep for t in before["lanelets"][i]["lights"]}
            V.prove("signs and lights kept iff referenced by a kept lanelet", V.And(set(after["signs"]) == ks, set(after["lights"]) == kt))
        exp = expected_after(before, gone_lanelets=set(LIDS) - keep)
        V.prove("kept lanelets unchanged apart from references to dropped lanelets",
                all(after["lanelets"][i] == exp["lanelets"][i] for i in keep & set(after["lanelets"])) if how != 2 else
                all({k: v for k, v in after["lanelets"][i].items() if k in ("pred", "succ", "adj_left", "adj_right", "left", "right", "types")} ==
                    {k: v for k, v in exp["lanelets"][i].items() if k in ("pred", "succ", "adj_left", "adj_right", "left", "right", "types")}
                    for i in keep & set(after["lanelets"])))
        V.prove("the source network is untouched", snapshot(net) == before)

    return ob


for _k in KINDS:
    for _h in range(3):
        _mk_cut(_k, _h, False)
        _mk_cut(_k, _h, True)

_N = "commonroad.scenario.lanelet:LaneletNetwork."
MUTANTS = [
    dict(name="successor-not-cleaned", target=_N + "cleanup_lanelet_references",
         old="            la._successor = list(set(la.successor).intersection(existing_ids))", new="            pass", only="succ"),
    dict(name="adj-right-checked-with-left", target=_N + "cleanup_lanelet_references",
         old="la._adj_right = None if la.adj_right is None or la.adj_right not in existing_ids else la.adj_right",
         new="la._adj_right = None if la.adj_right is None or la.adj_left not in existing_ids else la.adj_right", only="adj"),
    dict(name="crossings-not-cleaned", target=_N + "cleanup_lanelet_references",
         old="            inter._crossings = set(inter.crossings).intersection(existing_ids)", new="            pass", only="intersection"),
    dict(name="stop-line-sign-ref-kept", target=_N + "cleanup_traffic_sign_references",
         old="la.stop_line._traffic_sign_ref = la.stop_line.traffic_sign_ref.intersection(existing_ids)",
         new="pass", only="signs"),
    dict(name="light-cleanup-skipped", target=_N + "remove_traffic_light",
         old="        self.cleanup_traffic_light_references()", new="        pass", only="lights"),
    dict(name="cutout-final-cleanup-dropped", target=_N + "create_from_lanelet_network",
         old="        if cleanup_ids:\n            new_lanelet_network.cleanup_lanelet_references()", new="        pass", only="cutout.succ"),
    dict(name="hanging-signs-ignore-other-lanelets", target="commonroad.scenario.scenario:Scenario.remove_hanging_lanelet_members",
         old="if t.traffic_sign_id in set(traffic_signs_to_delete - traffic_signs_to_save):",
         new="if t.traffic_sign_id in set(traffic_signs_to_delete):", only="remove.signs"),
    dict(name="cutout-keeps-all-signs", target=_N + "create_from_lanelet_network",
         old="            for sign_id in la.traffic_signs:\n                traffic_sign_ids.add(sign_id)",
         new="            pass", only="cutout.signs"),
]

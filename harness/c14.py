"""C14 - Solution files round-trip exactly and follow the solution schema."""
import os
import warnings
import xml.etree.ElementTree as ET

import z3

from commonroad.common.solution import (CommonRoadSolutionReader, CommonRoadSolutionWriter, CostFunction,
                                        PlanningProblemSolution, Solution, StateFields, SupportedCostFunctions,
                                        TrajectoryType, VehicleModel, VehicleType, XMLStateFields)
from commonroad.scenario.scenario import ScenarioID

import commonroad
from harness import fixtures as fx
from symex import core, strs
from symex.api import obligation

XSD = os.path.join(os.path.dirname(commonroad.__file__), "scenario_definition", "xml_definition_files", "CommonRoadSolution_schema.xsd")
ASSUMPTIONS = ["the writer's element tree is handed to the reader's _parse_solution directly (serialisation and parsing of the XML "
               "text preserve element names, order, attributes and text: contract of ElementTree / expat)",
               "str(x) of a float denotes x exactly and has the lexical shape of Python's float repr; float(str(x)) == x and "
               "int(str(n)) == n (documented contracts) - 'bit-identical' is checked as: the value read back is the very term written",
               "trajectories of 2 states; time steps symbolic ints (strictly increasing), all other state values symbolic reals or ints",
               "scenario id concrete (ids are C13)"]
OUTSIDE = ["the date attribute (C strftime/strptime)", "minidom pretty printing", "lxml validation of the byte stream (used in replay only)",
           "processor_name='auto' (reads /proc/cpuinfo)"]
STUBS = ["placeholder tokens for str() of proxies; float()/int() of a token return the value behind it"]
F = ["commonroad/common/solution.py:CommonRoadSolutionWriter._serialize_solution", "commonroad/common/solution.py:CommonRoadSolutionWriter._create_root_node",
     "commonroad/common/solution.py:CommonRoadSolutionWriter._create_trajectory_node", "commonroad/common/solution.py:CommonRoadSolutionWriter._create_state_node",
     "commonroad/common/solution.py:CommonRoadSolutionWriter._create_sub_element", "commonroad/common/solution.py:CommonRoadSolutionReader._parse_solution",
     "commonroad/common/solution.py:CommonRoadSolutionReader._parse_header", "commonroad/common/solution.py:CommonRoadSolutionReader._parse_planning_problem_solution",
     "commonroad/common/solution.py:CommonRoadSolutionReader._parse_trajectory", "commonroad/common/solution.py:CommonRoadSolutionReader._parse_state",
     "commonroad/common/solution.py:CommonRoadSolutionReader._parse_sub_element", "commonroad/common/solution.py:PlanningProblemSolution.__init__",
     "commonroad/common/solution.py:StateType.get_state_type"]
KINDS = ["PM", "ST", "KS", "KST", "MB", "Input", "PMInput"]
MODEL_FOR = {"PM": VehicleModel.PM, "ST": VehicleModel.ST, "KS": VehicleModel.KS, "KST": VehicleModel.KST, "MB": VehicleModel.MB,
             "Input": VehicleModel.KS, "PMInput": VehicleModel.PM}
XS = "{http://www.w3.org/2001/XMLSchema}"
CPU_NAMES = ["cpu-x", "Intel(R) Core(TM) i7-8550U CPU @ 1.80GHz", "AMD Ryzen 7 (TM)"]


def xsd_states():
    """trajectory element name -> (state element name, {child name: xs type}), in schema order"""
    root = ET.parse(XSD).getroot()
    out = []
    seq = root.find(f"{XS}element/{XS}complexType/{XS}sequence")
    for tr in seq.findall(f"{XS}element"):
        st_el = tr.find(f"{XS}complexType/{XS}sequence/{XS}element")
        kids = {e.get("name"): e.get("type") for e in st_el.find(f"{XS}complexType/{XS}all").findall(f"{XS}element")}
        out.append((tr.get("name"), st_el.get("name"), kids))
    return out


def make_values(V, tag, kind, int_fields=()):
    """symbolic state values: values[(i, field)]"""
    vals = {}

    def val(i, f):
        key = (i, f)
        if key not in vals:
            name = f"{tag}s{i}_{f}"
            vals[key] = V.int(name, -1000, 1000) if f in int_fields else V.real(name, -1e6, 1e6)
        return vals[key]

    return val, vals


def build_solution(V, tag, pp_id, kind, t0, int_fields=()):
    val, vals = make_values(V, tag, kind, int_fields)
    traj = fx.solution_trajectory(kind, val, t0=0, n=2)
    # symbolic, strictly increasing time steps
    ts = [V.int(f"{tag}t{i}", 0, 100000) for i in range(2)]
    V.assume(ts[0] < ts[1])
    for s, t in zip(traj.state_list, ts):
        s.time_step = t
    traj._initial_time_step = ts[0]
    model = MODEL_FOR[kind]
    cost = SupportedCostFunctions[model.name].value[0]
    return PlanningProblemSolution(pp_id, model, VehicleType.BMW_320i, cost, traj), vals, ts


def roundtrip(V, solution, reverse_states=False):
    root = CommonRoadSolutionWriter(solution)._solution_root
    if V.symbolic:
        if reverse_states:
            for tr in root:
                kids = list(tr)
                for k in kids:
                    tr.remove(k)
                for k in reversed(kids):
                    tr.append(k)
        return root, CommonRoadSolutionReader._parse_solution(root)
    text = ET.tostring(root, encoding="unicode")
    if reverse_states:
        r2 = ET.fromstring(text)
        for tr in r2:
            kids = list(tr)
            for k in kids:
                tr.remove(k)
            for k in reversed(kids):
                tr.append(k)
        text = ET.tostring(r2, encoding="unicode")
    return root, CommonRoadSolutionReader.fromstring(text)


def check_states(V, kind, read_traj, vals, ts, tag=""):
    V.prove(f"{tag}time steps read back in ascending order", V.And(len(read_traj.state_list) == 2,
                                                                    [V.eq(read_traj.state_list[i].time_step, ts[i]) for i in range(min(2, len(read_traj.state_list)))]))
    V.prove(f"{tag}initial time step", V.eq(read_traj.initial_time_step, ts[0]))
    for i, s in enumerate(read_traj.state_list[:2]):
        parts = []
        for f in StateFields[kind].value:
            if f == "time_step":
                continue
            if f == "position":
                parts += [V.same(s.position[0], vals[(i, "x")]), V.same(s.position[1], vals[(i, "y")])]
            else:
                parts.append(V.same(getattr(s, f), vals[(i, f)]) if hasattr(s, f) else False)
        V.prove(f"{tag}state {i}: every value read back is the value written", V.And(parts))
        V.prove(f"{tag}state {i}: exactly the fields of the state type", set(s.attributes) == set(StateFields[kind].value))


def _mk_single(kind):
    @obligation("C14", f"roundtrip.{kind}", functions=F, bounds=f"one {kind} trajectory of 2 states, all values symbolic, states stored in "
                                                                 "document order or reversed; computation time symbolic")
    def ob(V):
        warnings.filterwarnings("ignore")
        pps, vals, ts = build_solution(V, "", 7, kind, 0)
        ct = V.real("computation_time", 1e-6, 1e6)
        cpu = CPU_NAMES[V.choice("processor_name", len(CPU_NAMES))]
        sol_ = Solution(ScenarioID.from_benchmark_id("USA_US101-33_2_T-1", "2020a"), [pps], None, ct, cpu)
        root, back = roundtrip(V, sol_, V.flag("states_reversed_in_document"))
        V.prove("benchmark id read back", back.benchmark_id == sol_.benchmark_id)
        V.prove("computation time and processor name read back", V.And(V.same(back.computation_time, ct), back.processor_name == cpu,
                                                                        back.date is None))
        V.prove("planning problem id and trajectory type read back", V.And(
            len(back.planning_problem_solutions) == 1, back.planning_problem_solutions[0].planning_problem_id == 7,
            back.planning_problem_solutions[0].trajectory_type is pps.trajectory_type,
            back.planning_problem_solutions[0].vehicle_model is pps.vehicle_model,
            back.planning_problem_solutions[0].cost_function is pps.cost_function))
        check_states(V, kind, back.planning_problem_solutions[0].trajectory, vals, ts)

    return ob


for _k in KINDS:
    _mk_single(_k)


def _mk_formatting(kind):
    @obligation("C14", f"roundtrip.number-formatting.{kind}", functions=F, max_paths={"quick": 3000, "thorough": 20000},
                bounds=f"{kind} trajectory; three state values range over [-1, 1] and [-1e17, 1e17] under the repr contract of str(float) (positional / "
                       "exponent notation decided by magnitude), so that every formatting branch of the writer is exercised; the other values as before")
    def ob(V):
        import builtins

        import commonroad.common.solution as sol_mod
        from symex import fmt

        warnings.filterwarnings("ignore")
        keep = sol_mod.__dict__.get("str", None)
        sol_mod.str = fmt.sym_str if V.symbolic else builtins.str
        try:
            val0, vals = make_values(V, "", kind)
            fields = [f for f in StateFields[kind].value if f not in ("time_step",)]
            special = {}
            names = (["x", "y"] if "position" in fields else []) + [f for f in fields if f != "position"]
            for j, f in enumerate(names[:3]):
                special[(0, f)] = V.real(f"fmt_{f}", -1.0, 1.0) if j < 2 else V.real(f"fmt_{f}", -1e17, 1e17)

            def val(i, f):
                if (i, f) in special:
                    vals[(i, f)] = special[(i, f)]
                    return special[(i, f)]
                return val0(i, f)

            traj = fx.solution_trajectory(kind, val, t0=0, n=2)
            model = MODEL_FOR[kind]
            pps = PlanningProblemSolution(7, model, VehicleType.BMW_320i, SupportedCostFunctions[model.name].value[0], traj)
            sol_ = Solution(ScenarioID.from_benchmark_id("USA_US101-33_2_T-1", "2020a"), [pps], None, None, None)
            root, back = roundtrip(V, sol_, False)
            tr = back.planning_problem_solutions[0].trajectory
            parts = []
            for (i, f), v in special.items():
                s_ = tr.state_list[i]
                got = s_.position[0] if f == "x" else s_.position[1] if f == "y" else getattr(s_, f)
                parts.append(V.same(got, v))
            V.prove("values of every magnitude are read back bit-identically", V.And(parts))
        finally:
            if keep is None:
                sol_mod.__dict__.pop("str", None)
            else:
                sol_mod.str = keep

    return ob


for _k in ("KS", "PM"):
    _mk_formatting(_k)


SPECIAL = [0.0, -0.0, 5e-324, -2.2250738585072014e-308, 1.7976931348623157e+308, 0.1, -123456789.12345679, 1e-05, 1e+16, 3.0000000000000004]


@obligation("C14", "roundtrip.special-values", functions=F,
            bounds=f"KS trajectory of 2 states whose steering angle and velocity take every pair of values from {SPECIAL} (signed zeros, subnormal, "
                   "extreme and many-digit doubles): read back with identical bits, in one process so that any state kept between elements shows")
def roundtrip_special(V):
    import struct

    warnings.filterwarnings("ignore")
    a = SPECIAL[V.choice("value_state0", len(SPECIAL))]
    b = SPECIAL[V.choice("value_state1", len(SPECIAL))]
    vals = {}

    def val(i, f):
        v = (a if i == 0 else b) if f in ("steering_angle", "velocity") else 0.5 + i
        vals[(i, f)] = v
        return v

    traj = fx.solution_trajectory("KS", val, t0=0, n=2)
    pps = PlanningProblemSolution(7, MODEL_FOR["KS"], VehicleType.BMW_320i, SupportedCostFunctions[MODEL_FOR["KS"].name].value[0], traj)
    sol_ = Solution(ScenarioID.from_benchmark_id("USA_US101-33_2_T-1", "2020a"), [pps], None, None, None)
    root = CommonRoadSolutionWriter(sol_)._solution_root
    back = CommonRoadSolutionReader.fromstring(ET.tostring(root, encoding="unicode"))
    tr = back.planning_problem_solutions[0].trajectory
    bits = lambda x: struct.pack("<d", float(x))  # noqa: E731
    ok = all(bits(getattr(tr.state_list[i], f)) == bits(vals[(i, f)]) for i in range(2) for f in ("steering_angle", "velocity"))
    V.prove("special double values are read back with identical bits", ok)


def _mk_reassigned(first, second):
    @obligation("C14", f"roundtrip.trajectory-reassigned.{first}-to-{second}", functions=F + ["commonroad/common/solution.py:PlanningProblemSolution.trajectory"],
                bounds=f"a planning-problem solution built with a {first} trajectory whose trajectory is then replaced through the public setter "
                       f"by a {second} trajectory of the same vehicle model (2 states, all values symbolic)")
    def ob(V):
        warnings.filterwarnings("ignore")
        pps, _, _ = build_solution(V, "old_", 7, first, 0)
        other, vals, ts = build_solution(V, "", 7, second, 0)
        pps.trajectory = other.trajectory
        V.prove("the solution reports the type of its current trajectory", pps.trajectory_type is other.trajectory_type)
        sol_ = Solution(ScenarioID.from_benchmark_id("USA_US101-33_2_T-1", "2020a"), [pps], None, None, None)
        root, back = roundtrip(V, sol_)
        V.prove("planning problem id and trajectory type read back", V.And(
            len(back.planning_problem_solutions) == 1, back.planning_problem_solutions[0].planning_problem_id == 7,
            back.planning_problem_solutions[0].trajectory_type is other.trajectory_type))
        check_states(V, second, back.planning_problem_solutions[0].trajectory, vals, ts)

    return ob


_mk_reassigned("KS", "Input")
_mk_reassigned("PMInput", "PM")


@obligation("C14", "roundtrip.int-values", functions=F, bounds="KS trajectory whose velocity and steering angle are ints")
def roundtrip_ints(V):
    warnings.filterwarnings("ignore")
    pps, vals, ts = build_solution(V, "", 3, "KS", 0, int_fields=("velocity", "steering_angle"))
    sol_ = Solution(ScenarioID.from_benchmark_id("DEU_A9-2_1_T-1", "2020a"), [pps], None, None, None)
    root, back = roundtrip(V, sol_)
    check_states(V, "KS", back.planning_problem_solutions[0].trajectory, vals, ts)
    V.prove("absent metadata stays absent", V.And(back.computation_time is None, back.processor_name is None))


@obligation("C14", "roundtrip.cooperative", functions=F, bounds="two planning problems (PM input vector + MB trajectory, schema order)")
def roundtrip_coop(V):
    warnings.filterwarnings("ignore")
    ids = (1, 2) if not V.flag("ids_descending") else (9, 4)
    a, va, ta = build_solution(V, "a_", ids[0], "PMInput", 0)
    b, vb, tb = build_solution(V, "b_", ids[1], "ST", 0)
    sol_ = Solution(ScenarioID.from_benchmark_id("C-USA_US101-33_2_T-1", "2020a"), [a, b], None, None, None)
    root, back = roundtrip(V, sol_)
    V.prove("both planning problems read back in order", V.And(len(back.planning_problem_solutions) == 2,
                                                                 [p.planning_problem_id for p in back.planning_problem_solutions] == list(ids),
                                                                 back.benchmark_id == sol_.benchmark_id))
    if len(back.planning_problem_solutions) == 2:
        V.prove("each planning problem keeps its vehicle model, cost function and trajectory type", V.And(
            [q.vehicle_model is p.vehicle_model and q.cost_function is p.cost_function and q.trajectory_type is p.trajectory_type
             for p, q in zip([a, b], back.planning_problem_solutions)]))
        check_states(V, "PMInput", back.planning_problem_solutions[0].trajectory, va, ta, "problem 1: ")
        check_states(V, "ST", back.planning_problem_solutions[1].trajectory, vb, tb, "problem 2: ")


XS_FLOAT = None


def xs_float():
    d = z3.Range("0", "9")
    sign = z3.Option(z3.Union(z3.Re("+"), z3.Re("-")))
    mant = z3.Union(z3.Concat(z3.Plus(d), z3.Option(z3.Concat(z3.Re("."), z3.Star(d)))), z3.Concat(z3.Re("."), z3.Plus(d)))
    exp = z3.Option(z3.Concat(z3.Union(z3.Re("e"), z3.Re("E")), sign, z3.Plus(d)))
    return z3.Union(z3.Concat(sign, mant, exp), z3.Concat(sign, z3.Re("INF")), z3.Re("NaN"))


def xs_int():
    return z3.Concat(z3.Option(z3.Union(z3.Re("+"), z3.Re("-"))), z3.Plus(z3.Range("0", "9")))


def _mk_schema(kind):
    @obligation("C14", f"schema.{kind}", functions=F, bounds=f"{kind} trajectory: element names against the shipped XSD (parsed at run time), "
                                                              "every numeral against the lexical space of its XSD type")
    def ob(V):
        warnings.filterwarnings("ignore")
        pps, vals, ts = build_solution(V, "", 7, kind, 0)
        ct = V.real("computation_time", 1e-6, 1e6)
        sol_ = Solution(ScenarioID.from_benchmark_id("USA_US101-33_2_T-1", "2020a"), [pps], None, ct, None)
        root = CommonRoadSolutionWriter(sol_)._solution_root
        spec = {t: (s, kids) for t, s, kids in xsd_states()}
        tr = root[0]
        V.prove("trajectory element is defined by the schema", tr.tag in spec)
        if tr.tag not in spec:
            return
        st_name, kids = spec[tr.tag]
        V.prove("attributes of the root and of the trajectory element", V.And(set(root.attrib) <= {"benchmark_id", "date", "computation_time", "processor_name"},
                                                                             "benchmark_id" in root.attrib, set(tr.attrib) == {"planningProblem"}))
        for i, sn in enumerate(tr):
            V.prove(f"state {i}: element name and child names are those of the schema (xs:all)",
                    V.And(sn.tag == st_name, sorted(c.tag for c in sn) == sorted(kids)))
            for c in sn:
                if c.tag not in kids:
                    continue
                if V.symbolic:
                    lex = xs_float() if kids[c.tag] == "xs:float" else xs_int()
                    V.prove(f"state {i}: <{c.tag}> is a valid {kids[c.tag]} literal", core.SymBool(z3.InRe(strs.term_of(c.text), lex)))
                else:
                    import re as _re

                    pat = r"[+-]?(\d+(\.\d*)?|\.\d+)([eE][+-]?\d+)?" if kids[c.tag] == "xs:float" else r"[+-]?\d+"
                    V.prove(f"state {i}: <{c.tag}> is a valid {kids[c.tag]} literal", _re.fullmatch(pat, c.text) is not None)
        if V.symbolic:
            V.prove("computation_time is a valid xs:float literal", core.SymBool(z3.InRe(strs.term_of(root.get("computation_time")), xs_float())))

    return ob


for _k in ("PM", "ST", "KS", "MB", "Input", "PMInput"):
    _mk_schema(_k)

_W = "commonroad.common.solution:CommonRoadSolutionWriter."
_R = "commonroad.common.solution:CommonRoadSolutionReader."
MUTANTS = [
    dict(name="reader-no-sort", target=_R + "_parse_trajectory", old="state_list = sorted(state_list, key=lambda state: state.time_step)", new="pass", only="roundtrip.KS"),
    dict(name="writer-rounds-values", target=_W + "_create_sub_element", old="str(np.float64(value) if isinstance(value, float) else value)",
         new="str(round(np.float64(value), 12) if isinstance(value, float) else value)", only="roundtrip.PM"),
    dict(name="reader-position-swapped", target=_R + "_parse_state",
         old="np.array([cls._parse_sub_element(state_node, name) for name in xml_name])", new="np.array([cls._parse_sub_element(state_node, name) for name in xml_name[::-1]])", only="roundtrip.ST"),
    dict(name="computation-time-dropped", target=_R + "_parse_header", old='computation_time = root_node.attrib.get("computation_time", None)',
         new='computation_time = root_node.attrib.get("computationTime", None)', only="roundtrip.MB"),
    dict(name="writer-time-as-float", target=_W + "_create_sub_element", old="str(np.float64(value) if isinstance(value, float) else value)",
         new="str(np.float64(value))", only="schema.KS"),
    dict(name="writer-state-tag", target=_W + "_create_state_node", old="state_node = et.Element(state_type.value)", new="state_node = et.Element(state_type.name)", only="schema.PM"),
]

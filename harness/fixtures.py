"""Small builders shared by the scenario-level harnesses (real public constructors only)."""
import numpy as np

from commonroad.common.common_lanelet import LaneletType, LineMarking, RoadUser, StopLine
from commonroad.geometry.shape import Circle, Rectangle
from commonroad.prediction.prediction import Occupancy, SetBasedPrediction, TrajectoryPrediction
from commonroad.scenario import state as st
from commonroad.scenario.intersection import Intersection, IntersectionIncomingElement
from commonroad.scenario.lanelet import Lanelet, LaneletNetwork
from commonroad.scenario.obstacle import (DynamicObstacle, EnvironmentObstacle, ObstacleType, PhantomObstacle,
                                          StaticObstacle)
from commonroad.scenario.scenario import Scenario
from commonroad.scenario.traffic_light import (TrafficLight, TrafficLightCycle, TrafficLightCycleElement,
                                               TrafficLightState)
from commonroad.scenario.traffic_sign import TrafficSign, TrafficSignElement, TrafficSignIDGermany
from commonroad.scenario.trajectory import Trajectory


def straight_lanelet(lid, x0=0.0, y0=0.0, length=10.0, width=3.0, n=2, **kw):
    """axis-parallel lanelet from (x0, y0-width/2 .. y0+width/2) to x0+length, n vertices per boundary"""
    xs = [x0 + length * i / (n - 1) for i in range(n)]
    right = np.array([[x, y0 - width / 2] for x in xs])
    left = np.array([[x, y0 + width / 2] for x in xs])
    center = np.array([[x, y0] for x in xs])
    return Lanelet(left, center, right, lid, **kw)


def sign(sid, first=None, pos=(1.0, 1.0), virtual=False):
    return TrafficSign(sid, [TrafficSignElement(TrafficSignIDGermany.MAX_SPEED, ["30"])], set(first or ()),
                       np.array([pos[0], pos[1]]), virtual)


def light(tid, pos=(2.0, 2.0), durations=(3, 2), offset=0):
    cols = [TrafficLightState.RED, TrafficLightState.GREEN, TrafficLightState.YELLOW]
    cyc = TrafficLightCycle([TrafficLightCycleElement(cols[i % 3], d) for i, d in enumerate(durations)], offset)
    return TrafficLight(tid, np.array([pos[0], pos[1]]), cyc)


def init_state(t0=0, x=0.0, y=0.0, th=0.0, v=0.0):
    return st.InitialState(time_step=t0, position=np.array([x, y]), orientation=th, velocity=v, acceleration=0.0,
                           yaw_rate=0.0, slip_angle=0.0)


def static_obstacle(oid, x=1.0, y=0.0, shape=None, **kw):
    return StaticObstacle(oid, ObstacleType.PARKED_VEHICLE, shape or Rectangle(2.0, 1.0), init_state(0, x, y), **kw)


def dynamic_obstacle(oid, x=2.0, y=0.0, n=2, shape=None, t0=0, **kw):
    shape = shape or Rectangle(2.0, 1.0)
    states = [st.KSState(time_step=t0 + i, position=np.array([x + i, y]), orientation=0.0, velocity=1.0, steering_angle=0.0)
              for i in range(1, n + 1)]
    pred = TrajectoryPrediction(Trajectory(t0 + 1, states), shape) if n else None
    return DynamicObstacle(oid, ObstacleType.CAR, shape, init_state(t0, x, y), pred, **kw)


def phantom_obstacle(oid, x=3.0, y=0.0):
    return PhantomObstacle(oid, SetBasedPrediction(0, [Occupancy(0, Rectangle(2.0, 1.0, np.array([x, y])))]))


def environment_obstacle(oid, x=4.0, y=8.0):
    return EnvironmentObstacle(oid, ObstacleType.BUILDING, Circle(1.0, np.array([x, y])))


def solution_trajectory(kind, values=None, t0=0, n=2):
    """trajectory whose states carry exactly the fields of the solution state type `kind` (PM, ST, KS, KST, MB, Input, PMInput);
    values(i, field) supplies the numbers (default: small concrete ones)"""
    from commonroad.common.solution import StateFields
    from commonroad.scenario.state import CustomState

    val = values or (lambda i, f: 0.5 + i + 0.01 * (sum(map(ord, f)) % 17))
    states = []
    for i in range(n):
        kw = {}
        for f in StateFields[kind].value:
            if f == "time_step":
                kw[f] = t0 + i
            elif f == "position":
                kw[f] = np.array([val(i, "x"), val(i, "y")])
            else:
                kw[f] = val(i, f)
        states.append(CustomState(**kw))
    return Trajectory(t0, states)

"""C07 - Obstacle-lanelet assignment is geometrically correct and invertible."""
import warnings

import numpy as np

from commonroad.geometry.shape import Rectangle
from commonroad.prediction.prediction import TrajectoryPrediction
from commonroad.scenario import state as st
from commonroad.scenario.obstacle import DynamicObstacle, ObstacleType, StaticObstacle
from commonroad.scenario.scenario import Scenario
from commonroad.scenario.trajectory import Trajectory

from harness import fixtures as fx
from harness.c06 import LAYOUTS, build_network, convex_intersect, in_lanelet, quads
from symex.api import obligation

LAYOUT = "adjacent"
LIDS = list(LAYOUTS[LAYOUT])
ASSUMPTIONS = ["network: three edge-adjacent lanelets; obstacles with an axis-parallel 3x2 rectangle shape at symbolic positions "
               "(static; dynamic with a 2-state trajectory; dynamic without prediction)",
               "geometric truth: centre in the closed lanelet polygon (per-segment quadrilaterals), occupancy / lanelet intersection "
               "by separating axes",
               "programs of 2 (quick) / 3 (thorough) operations over {assign, remove, add again}"]
OUTSIDE = ["circular shapes (their exported geometry has half the radius, see C06)", "rotated obstacle shapes (except the turning-in-place "
           "obligations)", "assignment while reading an XML file (the XML reader calls the same functions as the protobuf reader, which is covered)"]
STUBS = ["shapely-lite / STRtree-lite", "protobuf message stubs (read-with-assignment obligations)"]
F = ["commonroad/scenario/scenario.py:Scenario.assign_obstacles_to_lanelets", "commonroad/scenario/scenario.py:Scenario._add_static_obstacle_to_lanelets",
     "commonroad/scenario/scenario.py:Scenario._remove_static_obstacle_from_lanelets", "commonroad/scenario/scenario.py:Scenario._add_dynamic_obstacle_to_lanelets",
     "commonroad/scenario/scenario.py:Scenario._remove_dynamic_obstacle_from_lanelets", "commonroad/scenario/scenario.py:Scenario.remove_obstacle",
     "commonroad/scenario/scenario.py:Scenario.add_objects", "commonroad/scenario/lanelet.py:Lanelet.add_static_obstacle_to_lanelet",
     "commonroad/scenario/lanelet.py:Lanelet.add_dynamic_obstacle_to_lanelet", "commonroad/scenario/lanelet.py:LaneletNetwork.find_lanelet_by_position",
     "commonroad/scenario/lanelet.py:LaneletNetwork.find_lanelet_by_shape"]


def rect_pts(c):
    return [(c[0] - 1.5, c[1] - 1.0), (c[0] + 1.5, c[1] - 1.0), (c[0] + 1.5, c[1] + 1.0), (c[0] - 1.5, c[1] + 1.0)]


def truth_center(V, c):
    return {lid: in_lanelet(V, LAYOUT, lid, c) for lid in LIDS}


def truth_shape(V, c):
    Q = rect_pts(c)
    return {lid: V.Or([convex_intersect(V, qd, Q) for qd in quads(LAYOUT, lid)]) for lid in LIDS}


def set_is(V, got, truth):
    """the id set `got` is exactly {lid : truth[lid]}"""
    got = set() if got is None else set(got)
    return V.And([V.iff(lid in got, truth[lid]) for lid in LIDS] + [got <= set(LIDS)])


def scenario():
    sc = Scenario(0.1)
    sc.add_objects(build_network(LAYOUT, "from_list"))
    return sc


def pos(V, n):
    return (V.real(n + "x", -5, 25), V.real(n + "y", -5, 10))


@obligation("C07", "static", functions=F, max_paths={"quick": 4000, "thorough": 20000},
            bounds="static obstacle at a symbolic position: assign, check sets and registries, remove, check registries")
def static(V):
    warnings.filterwarnings("ignore")
    sc = scenario()
    c = pos(V, "s")
    o = StaticObstacle(50, ObstacleType.PARKED_VEHICLE, Rectangle(3.0, 2.0), fx.init_state(0, c[0], c[1], 0.0))
    sc.add_objects(o)
    sc.assign_obstacles_to_lanelets()
    tc, ts = truth_center(V, c), truth_shape(V, c)
    V.prove("static: centre-lanelet set = lanelets containing the centre", set_is(V, o.initial_center_lanelet_ids, tc))
    V.prove("static: shape-lanelet set = lanelets the occupancy intersects", set_is(V, o.initial_shape_lanelet_ids, ts))
    reg = {lid for lid in LIDS if 50 in sc.lanelet_network.find_lanelet_by_id(lid).static_obstacles_on_lanelet}
    V.prove("static: lanelet registries = inverse of the shape assignment", set_is(V, reg, ts))
    try:
        sc.remove_obstacle(o)
    except Exception as e:  # noqa: BLE001
        V.fail("removing an obstacle that is in the scenario failed", repr(e))
        return
    V.prove("static: obstacle gone and registries empty after removal",
            V.And(sc.obstacle_by_id(50) is None, all(50 not in sc.lanelet_network.find_lanelet_by_id(lid).static_obstacles_on_lanelet for lid in LIDS)))


def install_shims():
    from harness import c02

    c02.install_shims()  # message stubs: the protobuf reader is one of the two ways obstacles get assigned


def read_back_with_assignment(V, sc):
    """the scenario as the protobuf reader builds it with lanelet assignment enabled (message passthrough)"""
    from commonroad.planning.planning_problem import PlanningProblemSet
    from commonroad.scenario.scenario import ScenarioID

    from harness import c02

    sc.scenario_id = ScenarioID.from_benchmark_id("DEU_Muc-1_2_T-1", "2020a")
    w = c02.write(V, sc, PlanningProblemSet())
    data = w._commonroad_msg.SerializeToString()
    if V.symbolic:
        m = c02.rp.commonroad_pb2.CommonRoad()
        m.ParseFromString(data)
        return c02.rp.CommonRoadFactory.create_from_message(m, True)[0]
    return c02.rp.ProtobufFileReader(data).open(lanelet_assignment=True)[0]


def _mk_read(sym):
    @obligation("C07", f"read-with-assignment.{sym}-symbolic", functions=F + ["commonroad/common/reader/file_reader_protobuf.py:*Factory.create_from_message"],
                max_paths={"quick": 6000, "thorough": 30000},
                bounds=f"a static obstacle and a dynamic obstacle (initial state + 1 trajectory state), the {sym} one at a symbolic position, written to "
                       "protobuf and read back with lanelet assignment enabled (message passthrough): recorded sets and registries vs. geometry")
    def ob(V):
        read_with_assignment(V, sym)

    return ob


_mk_read("static")
_mk_read("dynamic")


def read_with_assignment(V, sym):
    warnings.filterwarnings("ignore")
    sc = scenario()
    cs = pos(V, "s") if sym == "static" else (9.0, 2.5)
    cd = pos(V, "d") if sym == "dynamic" else (9.5, 3.5)
    shape = Rectangle(3.0, 2.0)
    sc.add_objects(StaticObstacle(50, ObstacleType.PARKED_VEHICLE, shape, fx.init_state(0, cs[0], cs[1], 0.0)))
    st1 = st.KSState(time_step=1, position=np.array([9.0, 2.5]), orientation=0.0, velocity=1.0, steering_angle=0.0)
    sc.add_objects(DynamicObstacle(60, ObstacleType.CAR, shape, fx.init_state(0, cd[0], cd[1], 0.0), TrajectoryPrediction(Trajectory(1, [st1]), shape)))
    sc2 = read_back_with_assignment(V, sc)
    so, do = sc2.obstacle_by_id(50), sc2.obstacle_by_id(60)
    V.prove("both obstacles are read back", so is not None and do is not None)
    if so is None or do is None:
        return
    V.prove("read: static centre-lanelet set = lanelets containing the centre", set_is(V, so.initial_center_lanelet_ids, truth_center(V, cs)))
    V.prove("read: static shape-lanelet set = lanelets the occupancy intersects", set_is(V, so.initial_shape_lanelet_ids, truth_shape(V, cs)))
    reg = {lid for lid in LIDS if 50 in sc2.lanelet_network.find_lanelet_by_id(lid).static_obstacles_on_lanelet}
    V.prove("read: static registries = inverse of the shape assignment", set_is(V, reg, truth_shape(V, cs)))
    V.prove("read: dynamic centre-lanelet set at the initial step", set_is(V, do.initial_center_lanelet_ids, truth_center(V, cd)))
    V.prove("read: dynamic shape-lanelet set at the initial step", set_is(V, do.initial_shape_lanelet_ids, truth_shape(V, cd)))
    regd = {lid for lid in LIDS if 60 in sc2.lanelet_network.find_lanelet_by_id(lid).dynamic_obstacles_on_lanelet.get(0, set())}
    V.prove("read: dynamic registries at the initial step = inverse of the shape assignment", set_is(V, regd, truth_shape(V, cd)))
    sla = do.prediction.shape_lanelet_assignment or {}
    V.prove("read: shape-lanelet set at the trajectory step", set_is(V, sla.get(1), truth_shape(V, (9.0, 2.5))))


FIXED = [(2.0, 1.5), (8.0, 1.2), (12.0, 2.0)]  # concrete positions used for the time steps that are not symbolic


def _dynamic(V, with_prediction, sym_step):
    cs = [pos(V, f"d{i}") if i == sym_step else FIXED[i] for i in range(3)]
    shape = Rectangle(3.0, 2.0)
    pred = None
    if with_prediction:
        states = [st.KSState(time_step=i, position=np.array([c[0], c[1]]), orientation=0.0, velocity=1.0, steering_angle=0.0)
                  for i, c in ((1, cs[1]), (2, cs[2]))]
        pred = TrajectoryPrediction(Trajectory(1, states), shape)
    return DynamicObstacle(60, ObstacleType.CAR, shape, fx.init_state(0, cs[0][0], cs[0][1], 0.0), pred), cs


def _mk_dynamic(with_prediction, sym_step):
    name = f"dynamic.trajectory.step{sym_step}" if with_prediction else "dynamic.no-prediction"

    @obligation("C07", name, functions=F, max_paths={"quick": 6000, "thorough": 30000},
                bounds="dynamic obstacle " + (f"with a 2-state trajectory; the position at time step {sym_step} is symbolic, the other two "
                                              "are fixed" if with_prediction else "without prediction, symbolic position") +
                       ": assign, check per-time-step sets and registries, remove")
    def ob(V):
        warnings.filterwarnings("ignore")
        sc = scenario()
        o, cs = _dynamic(V, with_prediction, sym_step)
        sc.add_objects(o)
        sc.assign_obstacles_to_lanelets()
        steps = range(3) if with_prediction else range(1)
        for t in steps:
            tc, ts = truth_center(V, cs[t]), truth_shape(V, cs[t])
            if t == 0:
                V.prove("dynamic: initial centre-lanelet set", set_is(V, o.initial_center_lanelet_ids, tc))
                V.prove("dynamic: initial shape-lanelet set", set_is(V, o.initial_shape_lanelet_ids, ts))
            if with_prediction:
                V.prove(f"dynamic: centre assignment at step {t}", set_is(V, o.prediction.center_lanelet_assignment.get(t), tc))
                V.prove(f"dynamic: shape assignment at step {t}", set_is(V, o.prediction.shape_lanelet_assignment.get(t), ts))
            reg = {lid for lid in LIDS if 60 in sc.lanelet_network.find_lanelet_by_id(lid).dynamic_obstacles_on_lanelet.get(t, set())}
            V.prove(f"dynamic: lanelet registries at step {t} = inverse of the shape assignment", set_is(V, reg, ts))
        try:
            sc.remove_obstacle(o)
        except Exception as e:  # noqa: BLE001
            V.fail("removing an obstacle that is in the scenario failed", repr(e))
            return
        left = [lid for lid in LIDS for t, ids in sc.lanelet_network.find_lanelet_by_id(lid).dynamic_obstacles_on_lanelet.items() if 60 in ids]
        V.prove("dynamic: registries empty after removal", left == [])

    return ob


for _t in range(3):
    _mk_dynamic(True, _t)
_mk_dynamic(False, 0)


def rot_rect_pts(c, l, w, th):
    import math

    co, si = math.cos(th), math.sin(th)
    return [(c[0] + co * x - si * y, c[1] + si * x + co * y) for x, y in ((-l / 2, -w / 2), (l / 2, -w / 2), (l / 2, w / 2), (-l / 2, w / 2))]


@obligation("C07", "dynamic.turning-in-place", functions=F, max_paths={"quick": 6000, "thorough": 30000},
            bounds="dynamic obstacle with a 6x1 rectangle that keeps its (symbolic) centre for three time steps and turns "
                   "(headings 0, pi/2, 0.7): per-time-step shape assignment and registries")
def turning(V):
    import math

    warnings.filterwarnings("ignore")
    sc = scenario()
    c = pos(V, "c")
    headings = [0.0, math.pi / 2, 0.7]
    shape = Rectangle(6.0, 1.0)
    states = [st.KSState(time_step=i, position=np.array([c[0], c[1]]), orientation=headings[i], velocity=0.0, steering_angle=0.0) for i in (1, 2)]
    o = DynamicObstacle(60, ObstacleType.CAR, shape, fx.init_state(0, c[0], c[1], headings[0]), TrajectoryPrediction(Trajectory(1, states), shape))
    sc.add_objects(o)
    sc.assign_obstacles_to_lanelets()
    eps = 1e-6  # rotated corners are irrational: touching configurations are decided only up to rounding
    for t in range(3):
        inner = rot_rect_pts(c, 6.0 - 2 * eps, 1.0 - 2 * eps, headings[t])
        outer = rot_rect_pts(c, 6.0 + 2 * eps, 1.0 + 2 * eps, headings[t])
        must = {lid: V.Or([convex_intersect(V, qd, inner) for qd in quads(LAYOUT, lid)]) for lid in LIDS}
        may = {lid: V.Or([convex_intersect(V, qd, outer) for qd in quads(LAYOUT, lid)]) for lid in LIDS}
        got = set(o.prediction.shape_lanelet_assignment.get(t) or ())
        reg = {lid for lid in LIDS if 60 in sc.lanelet_network.find_lanelet_by_id(lid).dynamic_obstacles_on_lanelet.get(t, set())}
        V.prove(f"turning: shape assignment at step {t} (lanelets met by the occupancy shrunk by 1e-6 are listed, lanelets listed meet it grown by 1e-6)",
                V.And([V.Implies(must[lid], lid in got) for lid in LIDS] + [V.Implies(lid in got, may[lid]) for lid in LIDS]))
        V.prove(f"turning: lanelet registries at step {t} = recorded shape assignment", reg == got)


@obligation("C07", "dynamic.turning-in-place.concrete-centres", functions=F,
            bounds="as dynamic.turning-in-place with the centre taken from four concrete positions (symbolic index): data-dependent "
                   "bookkeeping keyed by coordinates is exercised with hashable values")
def turning_concrete(V):
    import math

    warnings.filterwarnings("ignore")
    sc = scenario()
    c = [(9.0, 1.5), (5.0, 1.0), (10.0, 3.0), (14.0, 2.0)][V.choice("centre", 4)]
    headings = [0.0, math.pi / 2, 0.0]
    shape = Rectangle(6.0, 1.0)
    states = [st.KSState(time_step=i, position=np.array([c[0], c[1]]), orientation=headings[i], velocity=0.0, steering_angle=0.0) for i in (1, 2)]
    o = DynamicObstacle(60, ObstacleType.CAR, shape, fx.init_state(0, c[0], c[1], headings[0]), TrajectoryPrediction(Trajectory(1, states), shape))
    sc.add_objects(o)
    sc.assign_obstacles_to_lanelets()
    for t in range(3):
        Q = rot_rect_pts(c, 6.0 - 2e-6, 1.0 - 2e-6, headings[t])
        ts = {lid: V.Or([convex_intersect(V, qd, Q) for qd in quads(LAYOUT, lid)]) for lid in LIDS}
        V.prove(f"turning (concrete centre): shape assignment at step {t}", set_is(V, o.prediction.shape_lanelet_assignment.get(t), ts))


def _mk_program(sym, k, tier):
    @obligation("C07", f"program.k{k}.{sym}-symbolic", tier=tier, functions=F, max_paths={"quick": 6000, "thorough": 60000},
                bounds=f"programs of {k} operations over {{assign all, remove static, remove dynamic, add static again, add dynamic again}} on a "
                       f"scenario with one static and one dynamic obstacle (no prediction); the {sym} obstacle's position is symbolic")
    def program(V):
        warnings.filterwarnings("ignore")
        sc = scenario()
        cs = pos(V, "s") if sym == "static" else (9.0, 2.5)
        cd = pos(V, "d") if sym == "dynamic" else (9.5, 3.5)
        so = StaticObstacle(50, ObstacleType.PARKED_VEHICLE, Rectangle(3.0, 2.0), fx.init_state(0, cs[0], cs[1], 0.0))
        do = DynamicObstacle(60, ObstacleType.CAR, Rectangle(3.0, 2.0), fx.init_state(0, cd[0], cd[1], 0.0))
        sc.add_objects([so, do])
        inside = {50: True, 60: True}
        assigned = {50: False, 60: False}
        for step in range(k):
            op = V.choice(f"op{step}", 5)
            try:
                if op == 0:
                    sc.assign_obstacles_to_lanelets()
                    assigned = {k: assigned[k] or inside[k] for k in assigned}
                elif op in (1, 2):
                    oid, ob_ = ((50, so), (60, do))[op - 1]
                    if not inside[oid]:
                        continue
                    sc.remove_obstacle(ob_)
                    inside[oid] = False
                else:
                    oid, ob_ = ((50, so), (60, do))[op - 3]
                    if inside[oid]:
                        continue
                    sc.add_objects(ob_)
                    inside[oid] = True
            except Exception as e:  # noqa: BLE001
                V.fail("an add / assign / remove operation on consistent data failed", f"op {op}: {e!r}")
                return
            ts_s, ts_d = truth_shape(V, cs), truth_shape(V, cd)
            reg_s = {lid for lid in LIDS if 50 in sc.lanelet_network.find_lanelet_by_id(lid).static_obstacles_on_lanelet}
            reg_d = {lid for lid in LIDS if 60 in sc.lanelet_network.find_lanelet_by_id(lid).dynamic_obstacles_on_lanelet.get(0, set())}
            none = {lid: False for lid in LIDS}
            V.prove("program: static registries = inverse of the shape assignment of contained, assigned obstacles",
                    set_is(V, reg_s, ts_s if (inside[50] and assigned[50]) else none))
            V.prove("program: dynamic registries = inverse of the shape assignment of contained, assigned obstacles",
                    set_is(V, reg_d, ts_d if (inside[60] and assigned[60]) else none))

    return program


_mk_program("static", 2, "quick")
_mk_program("dynamic", 2, "quick")
_mk_program("static", 3, "thorough")
_mk_program("dynamic", 3, "thorough")

_S = "commonroad.scenario.scenario:Scenario."
MUTANTS = [
    dict(name="dynamic-registry-from-centre", target=_S + "assign_obstacles_to_lanelets",
         old="                lanelet_ids = set(self.lanelet_network.find_lanelet_by_shape(shape))\n                if obstacle.prediction is not None:",
         new="                lanelet_ids = set(self.lanelet_network.find_lanelet_by_shape(shape)) & lanelet_ids_center\n                if obstacle.prediction is not None:",
         only="dynamic"),
    dict(name="initial-shape-ids-not-recorded", target=_S + "assign_obstacles_to_lanelets",
         old="                if not use_center_only:\n                    obstacle.initial_shape_lanelet_ids = lanelet_ids", new="                pass", only="dynamic"),
    dict(name="remove-dynamic-skips-prediction", target=_S + "_remove_dynamic_obstacle_from_lanelets",
         old="if obstacle.prediction is not None and obstacle.prediction.shape_lanelet_assignment is not None:", new="if False:", only="dynamic.trajectory"),
    dict(name="add-static-uses-centre-ids", target=_S + "add_objects",
         old="scenario_object.obstacle_id, scenario_object.initial_shape_lanelet_ids", new="scenario_object.obstacle_id, scenario_object.initial_center_lanelet_ids",
         only="program.k3.static", tier="thorough"),
    dict(name="time-step-off-by-one", target=_S + "assign_obstacles_to_lanelets",
         old="range(obs.initial_state.time_step, obs.prediction.final_time_step + 1)", new="range(obs.initial_state.time_step, obs.prediction.final_time_step)",
         only="dynamic.trajectory"),
]

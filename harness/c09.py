"""C09 - Object ids in a scenario stay unique and the id pool stays exact.

Bounded model checking: every program of k operations over a small universe of objects with deliberately colliding ids
is executed on the real Scenario in lock-step with an abstract id-pool model (the opcodes are solver-enumerated choices)."""
import warnings

import numpy as np

from commonroad.scenario.intersection import Intersection, IntersectionIncomingElement
from commonroad.scenario.lanelet import LaneletNetwork
from commonroad.scenario.scenario import Scenario

from harness import fixtures as fx
from symex.api import obligation

ASSUMPTIONS = ["universe: 2 lanelets (1 references sign 10 and light 11), sign, light, intersection 20 with incomings 21/22, "
               "static 30, dynamic 31, phantom 32, environment 33 obstacle; start states: fully populated / partially populated with one generated id / "
               "lanelet 1 referring to a sign id that is held by an obstacle instead of a sign / only a lanelet network added as a whole; colliding newcomers: lanelet 30, sign 1, "
               "intersection 40 with incoming 31, sign 40, dynamic obstacle 21, environment obstacle 1, phantom 2, static 10, light 30; a replacement network (lanelet 5, sign 10)",
               "removal operations are applied only to objects currently contained (as the property states), except remove_obstacle, "
               "which the library documents as a warning-only no-op for unknown obstacles",
               "purely discrete state: the engine enumerates all programs (bounded model checking by path exploration)"]
OUTSIDE = ["histories longer than the bound", "adding lists whose later elements collide (the statement is per object)"]
STUBS = ["shapely-lite / STRtree-lite behind Lanelet.polygon and the spatial index"]
F = ["commonroad/scenario/scenario.py:Scenario.add_objects", "commonroad/scenario/scenario.py:Scenario.remove_obstacle",
     "commonroad/scenario/scenario.py:Scenario.remove_lanelet", "commonroad/scenario/scenario.py:Scenario.remove_traffic_sign",
     "commonroad/scenario/scenario.py:Scenario.remove_traffic_light", "commonroad/scenario/scenario.py:Scenario.remove_intersection",
     "commonroad/scenario/scenario.py:Scenario.remove_hanging_lanelet_members", "commonroad/scenario/scenario.py:Scenario.replace_lanelet_network",
     "commonroad/scenario/scenario.py:Scenario.erase_lanelet_network", "commonroad/scenario/scenario.py:Scenario.generate_object_id",
     "commonroad/scenario/scenario.py:Scenario._mark_object_id_as_used", "commonroad/scenario/lanelet.py:LaneletNetwork.remove_*"]


class Universe:
    def __init__(self):
        self.objs = {}
        o = self.objs
        o["L1"] = fx.straight_lanelet(1, 0.0, 0.0, traffic_signs={10}, traffic_lights={11}, successor=[2])
        o["L2"] = fx.straight_lanelet(2, 10.0, 0.0, predecessor=[1])
        o["S10"] = fx.sign(10)
        o["T11"] = fx.light(11)
        o["I20"] = Intersection(20, [IntersectionIncomingElement(21, {1}, successors_straight={2}),
                                     IntersectionIncomingElement(22, {2}, successors_straight={1})])
        o["O30"] = fx.static_obstacle(30)
        o["O31"] = fx.dynamic_obstacle(31)
        o["O32"] = fx.phantom_obstacle(32)
        o["O33"] = fx.environment_obstacle(33)
        # newcomers with colliding ids
        o["L30"] = fx.straight_lanelet(30, 0.0, 5.0)
        o["S1"] = fx.sign(1)
        o["I40"] = Intersection(40, [IntersectionIncomingElement(31, {1}, successors_straight={2})])
        o["S40"] = fx.sign(40)
        o["O21"] = fx.dynamic_obstacle(21, n=0)
        o["O1"] = fx.environment_obstacle(1)
        o["O2"] = fx.phantom_obstacle(2)
        o["O10"] = fx.static_obstacle(10)
        o["T30"] = fx.light(30)
        self.kind = {k: k[0] for k in o}  # L S T I O
        self.ids = {"L1": {1}, "L2": {2}, "S10": {10}, "T11": {11}, "I20": {20, 21, 22}, "O30": {30}, "O31": {31},
                    "O32": {32}, "O33": {33}, "L30": {30}, "S1": {1}, "I40": {40, 31}, "S40": {40}, "O21": {21},
                    "O1": {1}, "O2": {2}, "O10": {10}, "T30": {30}}

    def new_network(self):
        n = LaneletNetwork()
        n.add_lanelet(fx.straight_lanelet(5, 0.0, 10.0, traffic_signs={10}))
        n.add_traffic_sign(fx.sign(10), set())
        return n, {"N_L5": {5}, "N_S10": {10}}


NAMES = ["L1", "L2", "S10", "T11", "I20", "O30", "O31", "O32", "O33", "L30", "S1", "I40", "S40", "O21", "O1", "O2", "O10", "T30"]
OPS = [("add", n) for n in NAMES] + [("rm", n) for n in NAMES] + [("rm_list", n) for n in NAMES] + \
      [("rm_lanelet_keep_refs", "L1"), ("gen", None), ("replace_net", None)]


def contained_ids(sc):
    ids = []
    for ob in sc.obstacles:
        ids.append(ob.obstacle_id)
    net = sc.lanelet_network
    ids += [la.lanelet_id for la in net.lanelets]
    ids += [s.traffic_sign_id for s in net.traffic_signs]
    ids += [t.traffic_light_id for t in net.traffic_lights]
    for i in net.intersections:
        ids.append(i.intersection_id)
        ids += [inc.incoming_id for inc in i.incomings]
    return ids


class Model:
    """abstract id pool: which named objects are contained, which ids they hold, which ids were generated"""

    def __init__(self):
        self.inside = {}  # name -> set of ids
        self.generated = set()
        self.l1_refs = {"S": {10}, "T": {11}}  # sign / light references currently held by the object L1

    def used(self):
        u = set()
        for v in self.inside.values():
            u |= v
        return u


def _run(V, k, first=None, start="full"):
    warnings.filterwarnings("ignore")
    U = Universe()
    sc = Scenario(0.1)
    m = Model()
    # start from a populated scenario so that short programs reach the interesting states; the second start state lacks
    # two objects and has already drawn one generated id
    names = ("L1", "L2", "S10", "T11", "I20", "O30", "O31", "O32", "O33")
    if start == "partial":
        names = ("L1", "L2", "T11", "I20", "O31", "O32", "O33")
        m.l1_refs["S"] = set()
    if start == "dangling":
        # lanelet 1 refers to a sign id (10) that is not a sign of the network - as in cut-out maps - while a static obstacle
        # holds that id
        names = ("L1", "L2", "T11", "I20", "O31", "O32", "O33", "O10")
    if start == "batch":
        # everything entered through a single add_objects(LaneletNetwork): the all-or-nothing marking path
        names = ()
        net = LaneletNetwork()
        for n in ("L1", "L2"):
            net.add_lanelet(U.objs[n])
        net.add_traffic_sign(U.objs["S10"], set())
        net.add_traffic_light(U.objs["T11"], set())
        sc.add_objects(net)
        for n in ("L1", "L2", "S10", "T11"):
            m.inside[n] = set(U.ids[n])
    for n in names:
        sc.add_objects(U.objs[n])
        m.inside[n] = set(U.ids[n])
    if start == "partial":
        sc.lanelet_network.cleanup_traffic_sign_references()
        m.generated.add(sc.generate_object_id())
    for step in range(k):
        op, name = OPS[first if (step == 0 and first is not None) else V.choice(f"op{step}", len(OPS))]
        tag = f"step{step}:{op}:{name}"
        obj = U.objs.get(name)
        if op == "add":
            if name in m.inside:
                continue  # the same Python object twice: not a new object
            collide = bool(U.ids[name] & m.used())
            before = sorted(contained_ids(sc))
            try:
                sc.add_objects(obj)
                raised = None
            except ValueError as e:
                raised = e
            if collide:
                V.prove("add with an id in use raises ValueError", raised is not None)
                V.prove("failed add leaves the contained objects unchanged", sorted(contained_ids(sc)) == before)
                if raised is None:
                    return
            else:
                if raised is not None:
                    V.fail("add of an object whose ids are all free was rejected (id pool not exact)", f"{tag}: {raised}")
                    return
                m.inside[name] = set(U.ids[name])
                if name == "L1":
                    pass
        elif op in ("rm", "rm_list", "rm_lanelet_keep_refs"):
            if name not in m.inside:
                if U.kind[name] == "O" and op != "rm_lanelet_keep_refs":
                    # removing an obstacle that is not contained only warns; it must not change anything
                    sc.remove_obstacle([obj] if op == "rm_list" else obj)
                    real = sorted(contained_ids(sc))
                    V.prove("contained ids = model of the id pool", real == sorted(m.used()))
                continue
            arg = [obj] if op == "rm_list" else obj
            kind = U.kind[name]
            if kind == "O":
                sc.remove_obstacle(arg)
            elif kind == "L":
                keep = op == "rm_lanelet_keep_refs"
                sc.remove_lanelet(arg, referenced_elements=not keep)
                if name == "L1" and not keep:
                    # signs / lights referenced only by L1 go with it
                    for ref, nm in (("S", "S10"), ("T", "T11")):
                        if nm in m.inside and m.l1_refs[ref] & m.inside[nm]:
                            del m.inside[nm]
            elif kind == "S":
                sc.remove_traffic_sign(arg)
                if name == "S10" and "L1" in m.inside:
                    m.l1_refs["S"] = set()
            elif kind == "T":
                sc.remove_traffic_light(arg)
                if name == "T11" and "L1" in m.inside:
                    m.l1_refs["T"] = set()
            elif kind == "I":
                sc.remove_intersection(arg)
            del m.inside[name]
        elif op == "gen":
            g = sc.generate_object_id()
            V.prove("generated id is not used by a contained object", g not in set(contained_ids(sc)))
            V.prove("generated id was never returned before", g not in m.generated)
            m.generated.add(g)
        elif op == "replace_net":
            if any(n.startswith("N_") for n in m.inside):
                continue
            if {5, 10} & {i for n, ids in m.inside.items() if U.kind.get(n) == "O" for i in ids}:
                continue  # a replacement network whose ids collide with obstacles is outside the statement
            net, ids = U.new_network()
            for n in [n for n in m.inside if U.kind.get(n, "N") in "LSTI"]:
                del m.inside[n]
            sc.replace_lanelet_network(net)
            m.inside.update(ids)
            # from here on the named network objects are gone; their Python objects keep their references
        real = sorted(contained_ids(sc))
        V.prove("no two contained objects share an id", len(real) == len(set(real)))
        V.prove("contained ids = model of the id pool", real == sorted(m.used()))
    V.reach("program completed")


def _mk(k, first, tier, start):
    op, name = OPS[first]

    @obligation("C09", f"k{k}.{start}.first-{op}-{name}", tier=tier, functions=F,
                bounds=f"all programs of {k} operations starting with {op}({name}) over {len(OPS)} operations, from the "
                       f"{start}ly populated start state")
    def ob(V):
        _run(V, k, first, start)

    return ob


for _start in ("full", "partial", "dangling", "batch"):
    for _i in range(len(OPS)):
        _mk(2, _i, "quick", _start)
    for _i in range(len(OPS)):
        _mk(3, _i, "thorough", _start)

_S = "commonroad.scenario.scenario:Scenario."
MUTANTS = [
    dict(name="phantom-id-not-released", target=_S + "remove_obstacle",
         old="            del self._phantom_obstacle[obstacle.obstacle_id]\n            self._id_set.remove(obstacle.obstacle_id)",
         new="            del self._phantom_obstacle[obstacle.obstacle_id]"),
    dict(name="light-list-id-not-released", target=_S + "remove_traffic_light",
         old="                self.lanelet_network.remove_traffic_light(light.traffic_light_id)\n                self._id_set.remove(light.traffic_light_id)",
         new="                self.lanelet_network.remove_traffic_light(light.traffic_light_id)"),
    dict(name="generate-ignores-counter", target=_S + "generate_object_id",
         old="            self._id_counter = max(self._id_counter, max_id_used)", new="            self._id_counter = max_id_used"),
    dict(name="env-obstacle-unchecked", target=_S + "add_objects",
         old="            self._mark_object_id_as_used(scenario_object.obstacle_id)\n            self._environment_obstacle",
         new="            self._id_set.add(scenario_object.obstacle_id)\n            self._environment_obstacle"),
    dict(name="hanging-sign-kept-id", target=_S + "remove_traffic_sign",
         old="            for sign in traffic_sign:\n                self.lanelet_network.remove_traffic_sign(sign.traffic_sign_id)\n                self._id_set.remove(sign.traffic_sign_id)",
         new="            for sign in traffic_sign:\n                self.lanelet_network.remove_traffic_sign(sign.traffic_sign_id)"),
]

"""A small XML-Schema interpreter for the subset the CommonRoad XSDs use (named complex / simple types, sequence / choice /
all with occurrence bounds, restrictions with enumeration and value facets, required attributes, one key / keyref).

The schema file is parsed at run time.  ``validate(root)`` walks a DOM tree (symex.dom or ElementTree) whose text and
attribute values may be symbolic numerals and returns a list of (path, condition) pairs: structural conditions are Python
bools, lexical / value conditions on symbolic leaves are solver terms."""
import re
import xml.etree.ElementTree as ET

import z3

from . import fmt, strs
from .core import Sym, SymBool, SymInt, SymReal, ctx, _toreal

XS = "{http://www.w3.org/2001/XMLSchema}"
INT_TYPES = {"xs:integer": (None, None), "xs:positiveInteger": (1, None), "xs:nonNegativeInteger": (0, None), "xs:int": (-2**31, 2**31 - 1),
             "xs:negativeInteger": (None, -1), "xs:nonPositiveInteger": (None, 0), "xs:long": (-2**63, 2**63 - 1)}


class Schema:
    def __init__(self, path):
        self.root = ET.parse(path).getroot()
        self.ctypes = {e.get("name"): e for e in self.root.findall(XS + "complexType")}
        self.stypes = {e.get("name"): e for e in self.root.findall(XS + "simpleType")}
        self.elements = {e.get("name"): e for e in self.root.findall(XS + "element")}

    # ---- content models -----------------------------------------------------------------------------
    def particle(self, node):
        """('el', name, decl, lo, hi) | ('seq'|'choice'|'all', [particles], lo, hi)"""
        lo = int(node.get("minOccurs", "1"))
        hi = node.get("maxOccurs", "1")
        hi = None if hi == "unbounded" else int(hi)
        tag = node.tag[len(XS):]
        if tag == "element":
            return ("el", node.get("name"), node, lo, hi)
        kind = {"sequence": "seq", "choice": "choice", "all": "all"}[tag]
        return (kind, [self.particle(c) for c in node if c.tag[len(XS):] in ("element", "sequence", "choice", "all")], lo, hi)

    def ends(self, p, tags, i):
        """end positions after matching particle p (with its occurrence bounds) from position i"""
        kind = p[0]
        lo, hi = p[-2], p[-1]

        def once(j):
            if kind == "el":
                return {j + 1} if j < len(tags) and tags[j] == p[1] else set()
            if kind == "seq":
                cur = {j}
                for sub in p[1]:
                    cur = {e for s in cur for e in self.ends(sub, tags, s)}
                    if not cur:
                        break
                return cur
            if kind == "choice":
                return {e for sub in p[1] for e in self.ends(sub, tags, j)}
            # all: each child element at most once (at least once if minOccurs=1), any order
            names = {sub[1]: sub for sub in p[1]}
            seen = set()
            k = j
            while k < len(tags) and tags[k] in names and tags[k] not in seen:
                seen.add(tags[k])
                k += 1
            need = {n for n, sub in names.items() if sub[3] >= 1}
            return {k} if need <= seen else set()

        results = set()
        cur = {i}
        count = 0
        if lo == 0:
            results.add(i)
        limit = lo + len(tags) + 1 if hi is None else hi
        while count < limit and cur:
            cur = {e for s in cur for e in once(s)}
            count += 1
            if count >= lo:
                results |= cur
        return results

    def child_decls(self, ctype):
        """name -> element declaration for all element particles anywhere in the content model"""
        out = {}
        for e in ctype.iter(XS + "element"):
            out.setdefault(e.get("name"), e)
        return out

    # ---- validation ----------------------------------------------------------------------------------
    def validate(self, root_el):
        decl = self.elements[root_el.tag] if root_el.tag in self.elements else None
        conds = []
        if decl is None:
            return [("/" + str(root_el.tag), False)]
        self._element(root_el, decl, "/" + root_el.tag, conds)
        self._keys(root_el, decl, conds)
        return conds

    def _type_of(self, decl):
        t = decl.get("type")
        if t is not None:
            if t in self.ctypes:
                return ("complex", self.ctypes[t])
            if t in self.stypes:
                return ("simple", self.stypes[t])
            return ("builtin", t)
        ct = decl.find(XS + "complexType")
        if ct is not None:
            return ("complex", ct)
        stp = decl.find(XS + "simpleType")
        if stp is not None:
            return ("simple", stp)
        return ("builtin", "xs:anyType")

    def _element(self, el, decl, path, conds):
        kind, t = self._type_of(decl)
        if kind == "complex":
            self._complex(el, t, path, conds)
        else:
            conds.append((path + ":no-children", len(list(el)) == 0))
            conds.append((path + ":no-attributes", len(el.attrib) == 0))
            conds.append((path + ":text", self.simple(kind, t, el.text)))

    def _complex(self, el, ctype, path, conds):
        model = next((c for c in ctype if c.tag[len(XS):] in ("sequence", "choice", "all")), None)
        kids = list(el)
        tags = [k.tag for k in kids]
        if model is None:
            conds.append((path + ":empty-content", not kids))
        else:
            conds.append((path + ":content-model(" + ",".join(tags) + ")", len(tags) in self.ends(self.particle(model), tags, 0)))
            decls = self.child_decls(ctype)
            counts = {}
            for k in kids:
                counts[k.tag] = counts.get(k.tag, 0) + 1
                if k.tag in decls:
                    self._element(k, decls[k.tag], f"{path}/{k.tag}[{counts[k.tag]}]", conds)
        attrs = {a.get("name"): a for a in ctype.findall(XS + "attribute")}
        for name, a in attrs.items():
            if a.get("use") == "required":
                conds.append((f"{path}/@{name}:present", name in el.attrib))
        for name, val in el.attrib.items():
            if name not in attrs:
                conds.append((f"{path}/@{name}:declared", False))
                continue
            kind, t = self._type_of(attrs[name])
            conds.append((f"{path}/@{name}", self.simple(kind, t, val)))

    def _keys(self, root_el, decl, conds):
        key = decl.find(XS + "key")
        if key is None:
            return
        sel = []
        for x in key.find(XS + "selector").get("xpath").split("|"):
            if x.strip() not in sel:
                sel.append(x.strip())
        ids = []
        for s in sel:
            parts = [p for p in s.split("/") if p not in (".", "")]
            nodes = [root_el]
            for p in parts:
                nodes = [c for n in nodes for c in n if c.tag == p]
            ids += [n.get("id") for n in nodes]
        uniq = []
        for i in ids:
            if i not in uniq:
                uniq.append(i)
        conds.append(("key:id unique and present", None not in ids and len(uniq) == len(ids)))
        refs = [n.get("ref") for n in root_el.iter() if n.get("ref") is not None]
        conds.append(("keyref:every ref names an id", all(r in ids for r in refs)))

    # ---- simple types --------------------------------------------------------------------------------
    def simple(self, kind, t, text):
        if kind == "simple":
            r = t.find(XS + "restriction")
            base = r.get("base")
            if base in self.stypes:
                cond = self.simple("simple", self.stypes[base], text)
            else:
                cond = self.simple("builtin", base, text)
            enums = [e.get("value") for e in r.findall(XS + "enumeration")]
            parts = [cond]
            if enums:
                parts.append(isinstance(text, str) and text in enums)
            for facet, op in (("minExclusive", lambda v, b: v > b), ("minInclusive", lambda v, b: v >= b),
                              ("maxInclusive", lambda v, b: v <= b), ("maxExclusive", lambda v, b: v < b)):
                f = r.find(XS + facet)
                if f is not None:
                    v = value_of(text)
                    parts.append(False if v is None else op(v, float(f.get("value"))))
            return _and(parts)
        return builtin_ok(t, text)


def _and(parts):
    if any(p is False for p in parts):
        return False
    sym = [p.e for p in parts if isinstance(p, SymBool)]
    if not sym:
        return all(bool(p) for p in parts)
    return SymBool(z3.And(sym))


def value_of(text):
    """numeric value denoted by a text leaf (proxy, float or None)"""
    if isinstance(text, fmt.SymDec):
        return text.x
    if isinstance(text, fmt.SymNumText):
        return text.value
    if isinstance(text, str):
        p = strs.single_token(text) if ctx_active() else None
        if p is not None:
            return p
        try:
            return float(text)
        except ValueError:
            return None
    return None


def ctx_active():
    from .core import Ctx

    return Ctx.cur is not None


DECIMAL = re.compile(r"[+-]?(\d+(\.\d*)?|\.\d+)")
INTEGER = re.compile(r"[+-]?\d+")


def builtin_ok(t, text):
    """is `text` in the lexical (and value) space of the builtin type t: bool or SymBool"""
    if t in ("xs:string", "xs:anyType", "xs:anyURI", "xs:token", "xs:normalizedString"):
        return text is None or isinstance(text, str)
    if text is None:
        return False
    if t == "xs:decimal":
        if isinstance(text, fmt.SymNumText):
            return True
        if isinstance(text, fmt.SymDec):
            return SymBool(z3.Not(fmt.exponent_regime(_toreal(text.x.e))))
        if isinstance(text, str):
            p = strs.single_token(text) if ctx_active() else None
            if p is not None:
                return isinstance(p, SymInt)
            return DECIMAL.fullmatch(text.strip()) is not None
        return False
    if t in INT_TYPES:
        lo, hi = INT_TYPES[t]
        if isinstance(text, str):
            p = strs.single_token(text) if ctx_active() else None
            if p is not None:
                if not isinstance(p, SymInt):
                    return False
                parts = []
                if lo is not None:
                    parts.append(p >= lo)
                if hi is not None:
                    parts.append(p <= hi)
                return _and(parts) if parts else True
            if INTEGER.fullmatch(text.strip()) is None:
                return False
            v = int(text)
            return (lo is None or v >= lo) and (hi is None or v <= hi)
        return False
    if t == "xs:boolean":
        if isinstance(text, fmt.SymBoolText):
            return text.lowered
        return isinstance(text, str) and text.strip() in ("true", "false", "1", "0")
    if t in ("xs:float", "xs:double"):
        if isinstance(text, (fmt.SymNumText, fmt.SymDec)):
            return True
        return isinstance(text, str) and re.fullmatch(r"[+-]?(\d+(\.\d*)?|\.\d+)([eE][+-]?\d+)?|[+-]?INF|NaN", text.strip()) is not None
    if t == "xs:time":
        return isinstance(text, str) and re.fullmatch(r"\d\d:\d\d:\d\d(\.\d+)?(Z|[+-]\d\d:\d\d)?", text) is not None
    if t == "xs:date":
        return isinstance(text, str) and re.fullmatch(r"-?\d{4,}-\d\d-\d\d(Z|[+-]\d\d:\d\d)?", text) is not None
    if t == "xs:dateTime":
        return isinstance(text, str) and re.fullmatch(r"-?\d{4,}-\d\d-\d\dT\d\d:\d\d:\d\d(\.\d+)?(Z|[+-]\d\d:\d\d)?", text) is not None
    raise NotImplementedError(f"builtin type {t}")

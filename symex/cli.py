import argparse
import os
import sys
import warnings


def main():
    ap = argparse.ArgumentParser()
    ap.add_argument("prop")
    ap.add_argument("--tier", default=os.environ.get("VERIF_TIER", "quick"), choices=["quick", "thorough"])
    ap.add_argument("--only", default=None)
    ap.add_argument("--replay", default=None)
    ap.add_argument("-v", action="store_true")
    ap.add_argument("--selftest", action="store_true", help="run the seeded in-memory defects; each must be reported")
    a = ap.parse_args()
    warnings.filterwarnings("ignore")
    from . import runner

    if a.replay:
        sys.exit(runner.run_replay(a.prop, a.replay))
    if a.selftest:
        res = runner.run_selftest(a.prop, a.tier, a.only, a.v)
        sys.exit(0 if res and all(r["killed"] for r in res) else 3)
    seed = int(os.environ.get("VERIF_SEED", "0") or 0)
    sys.exit(runner.run_check(a.prop, a.tier, a.only, a.v, seed)[0])


if __name__ == "__main__":
    main()

import argparse
import os
import sys
import warnings


def main():
    ap = argparse.ArgumentParser()
    ap.add_argument("prop")
    ap.add_argument("--tier", default=os.environ.get("VERIF_TIER", "quick"), choices=["quick", "thorough"])
    ap.add_argument("--only", default=None)
    ap.add_argument("--replay", default=None)
    ap.add_argument("-v", action="store_true")
    a = ap.parse_args()
    warnings.filterwarnings("ignore")
    from . import runner

    if a.replay:
        sys.exit(runner.run_replay(a.prop, a.replay))
    seed = int(os.environ.get("VERIF_SEED", "0") or 0)
    sys.exit(runner.run_check(a.prop, a.tier, a.only, a.v, seed))


if __name__ == "__main__":
    main()

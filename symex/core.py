"""SYMEX core: symbolic execution of real Python code by re-execution with proxy scalars.

Proxies (SymBool / SymInt / SymReal) wrap z3 terms.  ``SymBool.__bool__`` is the only fork point:
the current path condition decides which branches are feasible, the decision is appended to a trail
and the driver re-runs the harness with the last open decision flipped (depth first).

Python ``float`` is modelled as mathematical real, Python ``int`` as mathematical integer.
"""
from __future__ import annotations

import math
import time
import traceback
from fractions import Fraction

import z3


# z3py turns a Python float into the rational of its *decimal repr* (RealVal(str(x))); make it the exact binary value,
# consistent with lift() below, wherever a float meets a z3 term
_z3_RealVal = z3.z3.RealVal


def _exact_RealVal(val, ctx=None):
    if isinstance(val, float):
        f = Fraction(val)
        val = f"{f.numerator}/{f.denominator}"
    return _z3_RealVal(val, ctx)


z3.z3.RealVal = _exact_RealVal
z3.RealVal = _exact_RealVal


# ----------------------------------------------------------------------------------------------
# control-flow exceptions (BaseException so that `except Exception` in code under test cannot
# swallow them)
# ----------------------------------------------------------------------------------------------
class PathAbort(BaseException):
    """current path condition is unsatisfiable / an assumption failed"""


class Unsupported(BaseException):
    """a proxy reached an operation that has no model"""


class BudgetExceeded(BaseException):
    pass


class SolverUnknown(BaseException):
    pass


# ----------------------------------------------------------------------------------------------
# context
# ----------------------------------------------------------------------------------------------
class Ctx:
    cur: "Ctx" = None
    incremental_gave_up = 0  # per process (= per obligation)
    use_cvc5_for_strings = False  # set by harness modules whose claims are word equations

    def __init__(self, trail, timeout_ms=20000, max_decisions=4000):
        self.trail = trail  # list of [choice, closed]
        self.pos = 0
        self.solver = z3.Solver()
        self.solver.set("timeout", timeout_ms)
        self.timeout_ms = timeout_ms
        self.queries = 0
        self.solver_s = 0.0
        self.nfresh = 0
        self.inputs = {}  # name -> z3 const (harness inputs, in creation order)
        self.model = None  # a model of the current path condition, if known
        self.memo = {}  # per-path memo tables of the models (trig, sqrt, ...)
        self.tokens = {}  # placeholder token -> proxy
        self.assumptions = []  # textual log
        self.decisions = []  # (location, outcome) of genuine forks on this path
        self.max_decisions = max_decisions
        self.unknowns = 0
        self.fallbacks = 0
        self.fast_ms = 2500
        self._model_src = self.solver
        self.logics = set()
        self.pending = {}  # id of an auxiliary constant -> axioms that define it (asserted on first use)
        self._seen = {}  # id -> term (terms are kept alive so that ids are not recycled)

    # -- lazily asserted definitions of auxiliary symbols (keeps irrelevant nonlinear axioms out) --
    def add_lazy(self, consts, axioms):
        ax = list(axioms)
        for k in consts:
            self.pending[k.get_id()] = ax

    def touch(self, *terms):
        if not self.pending:
            return
        stack = [t for t in terms if isinstance(t, z3.ExprRef)]
        while stack:
            t = stack.pop()
            i = t.get_id()
            if i in self._seen:
                continue
            self._seen[i] = t
            if i in self.pending:
                ax = self.pending.pop(i)
                for a in ax:
                    self.solver.add(a)
                self.model = None
                # the axioms mention further auxiliary symbols: traverse them even if an identical term was seen before
                for a in ax:
                    self._seen.pop(a.get_id(), None)
                stack.extend(ax)
            stack.extend(t.children())

    # -- solver access ---------------------------------------------------------------------
    def check(self, *extra):
        """path condition (+ extra) satisfiable?  The incremental solver gets a short budget first; z3's incremental
        core is weak on nonlinear real arithmetic, so on `unknown` the same assertions go to a fresh (non-incremental)
        solver and then to the nlsat tactic, which decide the same queries in milliseconds."""
        self.touch(*extra)
        t = time.time()
        if Ctx.incremental_gave_up >= 3:
            r = z3.unknown  # this obligation's queries are nonlinear: go straight to the fresh solvers
        else:
            self.solver.set("timeout", min(self.timeout_ms, self.fast_ms))
            r = self.solver.check(*extra)
            if r == z3.unknown:
                Ctx.incremental_gave_up += 1
        self._model_src = self.solver
        if r == z3.unknown and Ctx.use_cvc5_for_strings:
            r = self._cvc5(extra)
        if r == z3.unknown:
            for mk in (lambda: z3.Solver(), lambda: z3.Then("simplify", "solve-eqs", "qfnra-nlsat").solver(),
                       lambda: z3.Tactic("smt").solver()):
                left = self.timeout_ms - int((time.time() - t) * 1000)
                if left <= 200:
                    break
                try:
                    s2 = mk()
                    s2.set("timeout", min(left, max(self.timeout_ms // 2, 1000)))
                    s2.add(self.solver.assertions())
                    s2.add(*extra)
                    r2 = s2.check()
                except z3.Z3Exception:
                    continue
                if r2 != z3.unknown:
                    r = r2
                    self._model_src = s2
                    self.fallbacks += 1
                    break
        self.solver_s += time.time() - t
        self.queries += 1
        if r == z3.unknown:
            self.unknowns += 1
        return r

    def _cvc5(self, extra):
        """second solver for word equations (z3's sequence solver gives up on them); only `unsat` is taken over"""
        try:
            from .strs import cvc5_check

            s2 = z3.Solver()
            s2.add(self.solver.assertions())
            s2.add(*extra)
            txt = s2.to_smt2().replace("(check-sat)", "")
            if cvc5_check(txt, min(self.timeout_ms, 15000)) == "unsat":
                self.fallbacks += 1
                return z3.unsat
        except Exception:  # noqa: BLE001 - the second solver is best effort
            pass
        return z3.unknown

    def get_model(self):
        return self._model_src.model()

    def reason_unknown(self):
        try:
            return self.solver.reason_unknown()
        except z3.Z3Exception:
            return "unknown"

    def add(self, *conds):
        for c in conds:
            if isinstance(c, SymBool):
                c = c.e
            elif isinstance(c, bool):
                if not c:
                    raise PathAbort()
                continue
            self.touch(c)
            self.solver.add(c)
        self.model = None

    def assume(self, cond, note=None):
        """Assumption of the harness: restricts the inputs."""
        if note:
            self.assumptions.append(note)
        if isinstance(cond, bool):
            if not cond:
                raise PathAbort()
            return
        e = cond.e if isinstance(cond, SymBool) else cond
        self.touch(e)
        self.solver.add(e)
        self.model = None
        # infeasible assumptions end the path
        if self.pos >= len(self.trail):
            r = self.check()
            if r == z3.unsat:
                raise PathAbort()
            if r == z3.sat:
                self.model = self.get_model()

    def _model_says(self, cond):
        if self.model is None:
            return None
        try:
            v = self.model.eval(cond, model_completion=True)
        except z3.Z3Exception:
            return None
        if z3.is_true(v):
            return True
        if z3.is_false(v):
            return False
        return None

    def decide(self, cond) -> bool:
        """Turns a z3 Bool into a Python bool, forking if both outcomes are feasible."""
        cond = z3.simplify(cond)
        if z3.is_true(cond):
            return True
        if z3.is_false(cond):
            return False
        self.touch(cond)
        if self.pos < len(self.trail):
            ch = self.trail[self.pos][0]
            self.pos += 1
            self.solver.add(cond if ch else z3.Not(cond))
            self.model = None
            if self.trail[self.pos - 1][2]:
                self.decisions.append((_where(), ch))
            return ch
        if len(self.trail) >= self.max_decisions:
            raise BudgetExceeded("decision depth")
        hint = self._model_says(cond)
        can_t = can_f = None
        if hint is True:
            can_t = True
        elif hint is False:
            can_f = True
        if can_t is None:
            r = self.check(cond)
            can_t = r != z3.unsat  # unknown is treated as feasible (explores a superset)
            if r == z3.sat and hint is None:
                self.model = self.get_model()
        if can_f is None:
            r = self.check(z3.Not(cond))
            can_f = r != z3.unsat
            if r == z3.sat and not can_t:
                self.model = self.get_model()
        if not can_t and not can_f:
            raise PathAbort()
        if can_t and can_f:
            # keep the model only if it agrees with the branch taken (True first)
            if self._model_says(cond) is not True:
                self.model = None
            self.trail.append([True, False, True])
            self.pos += 1
            self.solver.add(cond)
            self.decisions.append((_where(), True))
            return True
        ch = bool(can_t)
        self.trail.append([ch, True, False])
        self.pos += 1
        self.solver.add(cond if ch else z3.Not(cond))
        return ch

    # -- fresh symbols ---------------------------------------------------------------------
    def fresh(self, sort, hint="v"):
        self.nfresh += 1
        name = f"{hint}!{self.nfresh}"
        if sort == "real":
            return z3.Real(name)
        if sort == "int":
            return z3.Int(name)
        if sort == "bool":
            return z3.Bool(name)
        raise ValueError(sort)

    def model_values(self, model):
        out = {}
        for name, const in self.inputs.items():
            out[name] = _to_py(model.eval(const, model_completion=True))
        return out


def _where():
    """qualified location of the innermost frame inside /repo (for signatures / accounting)"""
    import sys

    f = sys._getframe(2)
    while f is not None:
        fn = f.f_code.co_filename
        if fn.startswith("/repo/"):
            return f"{fn[6:]}:{f.f_code.co_name}"
        f = f.f_back
    return "harness"


def _to_py(v):
    if z3.is_true(v):
        return True
    if z3.is_false(v):
        return False
    if z3.is_int_value(v):
        return v.as_long()
    if z3.is_rational_value(v):
        return Fraction(v.numerator_as_long(), v.denominator_as_long())
    if z3.is_algebraic_value(v):
        a = v.approx(30)
        return Fraction(a.numerator_as_long(), a.denominator_as_long())
    if z3.is_string_value(v):
        return v.as_string()
    return str(v)


def ctx() -> Ctx:
    c = Ctx.cur
    if c is None:
        raise Unsupported("symbolic value used outside an exploration")
    return c


# ----------------------------------------------------------------------------------------------
# lifting
# ----------------------------------------------------------------------------------------------
def lift(v):
    """Python / numpy / proxy value -> z3 term (or NotImplemented)."""
    if isinstance(v, Sym):
        return v.e
    if isinstance(v, bool):
        return z3.BoolVal(v)
    if isinstance(v, int):
        return z3.IntVal(v)
    if isinstance(v, float):
        if v != v or v in (math.inf, -math.inf):
            raise Unsupported("nan/inf constant in symbolic arithmetic")
        f = Fraction(v)
        return z3.RealVal(f"{f.numerator}/{f.denominator}")
    if isinstance(v, Fraction):
        return z3.RealVal(f"{v.numerator}/{v.denominator}")
    if isinstance(v, z3.ExprRef):
        return v
    try:
        import numpy as np

        if isinstance(v, np.bool_):
            return z3.BoolVal(bool(v))
        if isinstance(v, np.floating):
            return lift(float(v))
        if isinstance(v, np.integer):
            return lift(int(v))
        if isinstance(v, np.ndarray) and v.ndim == 0:
            return lift(v.item())
    except ImportError:  # pragma: no cover
        pass
    return NotImplemented


def rv(x):
    """exact rational literal for a Python number"""
    return lift(float(x)) if not isinstance(x, (int, Fraction)) else z3.RealVal(str(Fraction(x)))


def wrap(e):
    if isinstance(e, Sym):
        return e
    if z3.is_bool(e):
        return SymBool(e)
    if z3.is_int(e):
        return SymInt(e)
    if z3.is_real(e):
        return SymReal(e)
    raise Unsupported(f"cannot wrap sort {e.sort()}")


def is_sym(v):
    return isinstance(v, Sym)


# ----------------------------------------------------------------------------------------------
# proxies
# ----------------------------------------------------------------------------------------------
class Sym:
    __slots__ = ("e",)

    def __init__(self, e):
        self.e = e

    def __deepcopy__(self, memo):
        return self

    def __copy__(self):
        return self

    def __reduce__(self):
        raise Unsupported("pickling a symbolic value")

    def __repr__(self):
        return self._token()

    __str__ = __repr__

    def __format__(self, spec):
        return self._token(spec)

    def _token(self, spec=""):
        c = Ctx.cur
        if c is None:
            return f"<sym {self.e}>"
        key = (self.e.get_id(), spec)
        tok = c.memo.setdefault("tok", {}).get(key)
        if tok is None:
            tok = "%d" % len(c.tokens)
            c.tokens[tok] = (self, spec)
            c.memo["tok"][key] = tok
        return tok

    def __hash__(self):
        raise Unsupported("hash() of a symbolic value")


class SymBool(Sym):
    __slots__ = ()

    def __bool__(self):
        return ctx().decide(self.e)

    def _b(self, o):
        b = lift(o)
        if b is NotImplemented or not z3.is_bool(b):
            return None
        return b

    def __and__(self, o):
        b = self._b(o)
        return NotImplemented if b is None else SymBool(z3.And(self.e, b))

    __rand__ = __and__

    def __or__(self, o):
        b = self._b(o)
        return NotImplemented if b is None else SymBool(z3.Or(self.e, b))

    __ror__ = __or__

    def __xor__(self, o):
        b = self._b(o)
        return NotImplemented if b is None else SymBool(z3.Xor(self.e, b))

    __rxor__ = __xor__

    def __invert__(self):
        return SymBool(z3.Not(self.e))

    def __eq__(self, o):
        b = self._b(o)
        return NotImplemented if b is None else SymBool(self.e == b)

    def __ne__(self, o):
        b = self._b(o)
        return NotImplemented if b is None else SymBool(self.e != b)

    __hash__ = Sym.__hash__

    # bool is an int in Python
    def __int__(self):
        return 1 if bool(self) else 0

    def __index__(self):
        return 1 if bool(self) else 0


def _numwrap(e):
    return SymInt(e) if z3.is_int(e) else SymReal(e)


def _toreal(e):
    return z3.ToReal(e) if z3.is_int(e) else e


class SymNum(Sym):
    __slots__ = ()

    def _bin(self, o, f, rev=False):
        b = lift(o)
        if b is NotImplemented or z3.is_bool(b) and not isinstance(o, (bool, SymBool)):
            return NotImplemented
        if z3.is_bool(b):
            b = z3.If(b, z3.IntVal(1), z3.IntVal(0))
        a = self.e
        if rev:
            a, b = b, a
        return _numwrap(z3.simplify(f(a, b)))

    def _cmp(self, o, f):
        b = lift(o)
        if b is NotImplemented:
            return NotImplemented
        if z3.is_bool(b):
            b = z3.If(b, z3.IntVal(1), z3.IntVal(0))
        return SymBool(f(self.e, b))

    def __add__(self, o):
        return self._bin(o, lambda a, b: a + b)

    def __radd__(self, o):
        return self._bin(o, lambda a, b: a + b, True)

    def __sub__(self, o):
        return self._bin(o, lambda a, b: a - b)

    def __rsub__(self, o):
        return self._bin(o, lambda a, b: a - b, True)

    def __mul__(self, o):
        return self._bin(o, lambda a, b: a * b)

    def __rmul__(self, o):
        return self._bin(o, lambda a, b: a * b, True)

    def __neg__(self):
        return _numwrap(-self.e)

    def __pos__(self):
        return self

    def __lt__(self, o):
        return self._cmp(o, lambda a, b: a < b)

    def __le__(self, o):
        return self._cmp(o, lambda a, b: a <= b)

    def __gt__(self, o):
        return self._cmp(o, lambda a, b: a > b)

    def __ge__(self, o):
        return self._cmp(o, lambda a, b: a >= b)

    def __eq__(self, o):
        r = self._cmp(o, lambda a, b: a == b)
        return r

    def __ne__(self, o):
        return self._cmp(o, lambda a, b: a != b)

    __hash__ = Sym.__hash__

    def __abs__(self):
        return _numwrap(z3.If(self.e >= 0, self.e, -self.e))

    def __bool__(self):
        return ctx().decide(self.e != 0)

    def __float__(self):
        raise Unsupported("float() of a symbolic value reached C code")

    def __pow__(self, o, mod=None):
        if mod is not None:
            raise Unsupported("pow mod")
        if isinstance(o, (int,)) and not isinstance(o, bool) and 0 <= o <= 6:
            r = z3.RealVal(1) if not z3.is_int(self.e) else z3.IntVal(1)
            for _ in range(o):
                r = r * self.e
            return _numwrap(r)
        if isinstance(o, float) and o == 0.5:
            return _sqrt(self)
        if isinstance(o, float) and o == int(o) and 0 <= o <= 6:
            return SymReal(_toreal(self.e)).__pow__(int(o))
        raise Unsupported(f"pow with exponent {o!r}")

    def __truediv__(self, o):
        b = lift(o)
        if b is NotImplemented:
            return NotImplemented
        if not ctx().decide(b != 0):
            raise ZeroDivisionError("division by zero")
        return SymReal(z3.simplify(_toreal(self.e) / _toreal(b)))

    def __rtruediv__(self, o):
        a = lift(o)
        if a is NotImplemented:
            return NotImplemented
        if not ctx().decide(self.e != 0):
            raise ZeroDivisionError("division by zero")
        return SymReal(z3.simplify(_toreal(a) / _toreal(self.e)))

    # numpy object-dtype ufunc hooks ----------------------------------------------------------
    def sqrt(self):
        return _sqrt(self)

    def conjugate(self):
        return self

    def sin(self):
        from . import symmath

        return symmath.sin(self)

    def cos(self):
        from . import symmath

        return symmath.cos(self)

    def arctan2(self, other):
        from . import symmath

        return symmath.atan2(self, other)

    def arctan(self):
        from . import symmath

        return symmath.atan(self)

    def rint(self):
        return SymReal(_toreal(round_half_even(_toreal(self.e), 0)))

    def floor(self):
        return SymReal(z3.ToReal(floor_int(self.e)))

    def ceil(self):
        return SymReal(-z3.ToReal(floor_int(-_toreal(self.e))))

    @property
    def real(self):
        return self

    @property
    def imag(self):
        return 0


def _sqrt(x):
    c = ctx()
    e = z3.simplify(_toreal(x.e), som=True)
    key = ("sqrt", e.get_id())
    memo = c.memo.setdefault("sqrt", {})
    if key in memo:
        return SymReal(memo[key])
    if not c.decide(e >= 0):
        raise ValueError("math domain error")
    r = c.fresh("real", "sqrt")
    c.add_lazy([r], [r >= 0, r * r == e])
    memo[key] = r
    return SymReal(r)


def floor_int(e):
    """fresh Int f with f <= e < f+1 (memoised per term; avoids ToInt, which z3 handles badly)"""
    c = ctx()
    e = z3.simplify(_toreal(e))
    if z3.is_rational_value(e):
        return z3.IntVal(e.numerator_as_long() // e.denominator_as_long())
    memo = c.memo.setdefault("floor", {})
    key = e.get_id()
    if key not in memo:
        f = c.fresh("int", "floor")
        c.add(z3.ToReal(f) <= e, e < z3.ToReal(f) + 1)
        for f2, _ in memo.values():
            c.add(z3.Or(f <= f2, f >= f2 + 1))
        memo[key] = (f, e)
    return memo[key][0]


def round_half_even(e, n):
    """z3 term for Python's round(e, n) on reals (half-even, exact-real idealisation):
    fresh Int k with |y-k| <= 1/2 and k even on ties, y = e*10^n"""
    c = ctx()
    scale = z3.RealVal(10**n) if n >= 0 else z3.RealVal(1) / z3.RealVal(10 ** (-n))
    y = z3.simplify(_toreal(e) * scale)
    memo = c.memo.setdefault("round", {})
    key = y.get_id()
    if key not in memo:
        k = c.fresh("int", "round")
        j = c.fresh("int", "half")
        half = z3.RealVal("1/2")
        c.add(y - half <= z3.ToReal(k), z3.ToReal(k) <= y + half)
        c.add(z3.Implies(z3.Or(z3.ToReal(k) == y + half, z3.ToReal(k) == y - half), k == 2 * j))
        for k2, _ in memo.values():  # integer case-split tautologies: z3 needs them to order two roundings
            c.add(z3.Or(k <= k2, k >= k2 + 1))
        memo[key] = (k, y)
    return z3.ToReal(memo[key][0]) / scale


class SymReal(SymNum):
    __slots__ = ()

    def __round__(self, n=None):
        if n is None:
            return SymInt(z3.simplify(z3.ToInt(round_half_even(self.e, 0))))
        if isinstance(n, SymInt):
            n = n.__index__()
        return SymReal(round_half_even(self.e, int(n)))

    def __floordiv__(self, o):
        b = lift(o)
        if b is NotImplemented:
            return NotImplemented
        b = _toreal(b)
        if not ctx().decide(b != 0):
            raise ZeroDivisionError("float floor division by zero")
        return SymReal(z3.ToReal(floor_int(self.e / b)))

    def __mod__(self, o):
        b = lift(o)
        if b is NotImplemented:
            return NotImplemented
        b = _toreal(b)
        if not ctx().decide(b != 0):
            raise ZeroDivisionError("float modulo")
        # Python: result has the sign of the divisor; x - b*floor(x/b)
        bs = z3.simplify(b)
        if z3.is_rational_value(bs) and bs.numerator_as_long() > 0:
            # constant positive modulus: the quotient is found by forking (keeps the queries in LRA)
            c = ctx()
            for k in (0, -1, 1, -2, 2, -3, 3, -4, 4, -5, 5, -6, 6):
                if c.decide(z3.And(bs * k <= self.e, self.e < bs * (k + 1))):
                    return SymReal(z3.simplify(self.e - bs * k))
            raise BudgetExceeded("float modulo: quotient beyond +-6")
        return SymReal(self.e - b * z3.ToReal(floor_int(self.e / b)))

    def __rmod__(self, o):
        return SymReal(_toreal(lift(o))).__mod__(self)

    def __int__(self):
        raise Unsupported("int() of a symbolic real reached C code")

    def __trunc__(self):
        t = z3.If(self.e >= 0, floor_int(self.e), -floor_int(-self.e))
        return SymInt(t)

    def is_integer(self):
        return SymBool(z3.IsInt(self.e))


class SymInt(SymNum):
    __slots__ = ()

    @staticmethod
    def _divmod(a, b):
        """(q, r) z3 ints with Python floor semantics: a == b*q + r, r has the sign of b"""
        c = ctx()
        if not c.decide(b != 0):
            raise ZeroDivisionError("integer division or modulo by zero")
        a, b = z3.simplify(a), z3.simplify(b)
        if z3.is_int_value(b) and b.as_long() > 0:
            return a / b, a % b  # linear: Euclidean == floor for positive constant divisors
        memo = c.memo.setdefault("divmod", {})
        key = (a.get_id(), b.get_id())
        if key in memo:
            return memo[key][:2]
        q, r = c.fresh("int", "quot"), c.fresh("int", "rem")
        ax = [a == b * q + r, z3.Implies(b > 0, z3.And(0 <= r, r < b)), z3.Implies(b < 0, z3.And(b < r, r <= 0))]
        # periodicity lemmas w.r.t. earlier divisions by the same divisor (valid; they spare z3 nonlinear reasoning)
        for (a1, b1), (q1, r1, a1t, _) in list(memo.items()):
            if b1 == b.get_id():
                for k in (-2, -1, 0, 1, 2):
                    ax.append(z3.Implies(a == a1t + k * b, z3.And(r == r1, q == q1 + k)))
        c.add_lazy([q, r], ax)
        memo[key] = (q, r, a, b)
        return q, r

    def __floordiv__(self, o):
        b = lift(o)
        if b is NotImplemented:
            return NotImplemented
        if z3.is_real(b):
            return SymReal(z3.ToReal(self.e)).__floordiv__(o)
        return SymInt(z3.simplify(self._divmod(self.e, b)[0]))

    def __rfloordiv__(self, o):
        a = lift(o)
        if a is NotImplemented:
            return NotImplemented
        if z3.is_real(a):
            return SymReal(a).__floordiv__(self)
        return SymInt(z3.simplify(self._divmod(a, self.e)[0]))

    def __mod__(self, o):
        b = lift(o)
        if b is NotImplemented:
            return NotImplemented
        if z3.is_real(b):
            return SymReal(z3.ToReal(self.e)).__mod__(o)
        return SymInt(z3.simplify(self._divmod(self.e, b)[1]))

    def __rmod__(self, o):
        a = lift(o)
        if a is NotImplemented:
            return NotImplemented
        if z3.is_real(a):
            return SymReal(a).__mod__(self)
        return SymInt(z3.simplify(self._divmod(a, self.e)[1]))

    def __divmod__(self, o):
        return self // o, self % o

    def __index__(self):
        """enumerate the feasible values by forking (bounded by the harness assumptions)"""
        c = ctx()
        if z3.is_int_value(z3.simplify(self.e)):
            return z3.simplify(self.e).as_long()
        for _ in range(4096):
            v = None
            if c.model is not None:
                mv = c.model.eval(self.e, model_completion=True)
                if z3.is_int_value(mv):
                    v = mv.as_long()
            if v is None:
                r = c.check()
                if r != z3.sat:
                    raise PathAbort() if r == z3.unsat else SolverUnknown("index")
                c.model = c.get_model()
                v = c.model.eval(self.e, model_completion=True).as_long()
            if c.decide(self.e == v):
                return v
        raise BudgetExceeded("__index__ enumeration")

    def __int__(self):
        return self.__index__()

    def __round__(self, n=None):
        return self

    def __trunc__(self):
        return self

    def __and__(self, o):
        raise Unsupported("bitwise op on symbolic int")

    def __lshift__(self, o):
        raise Unsupported("bitwise op on symbolic int")

    def is_integer(self):
        return True


# ----------------------------------------------------------------------------------------------
# exploration driver
# ----------------------------------------------------------------------------------------------
class PathResult:
    __slots__ = ("kind", "info", "claims", "decisions")

    def __init__(self, kind, info=None, claims=None, decisions=None):
        self.kind = kind
        self.info = info
        self.claims = claims or []
        self.decisions = decisions or []


def innermost_repo_frame(tb):
    """(qualified function, source line text) of the innermost /repo frame of a traceback"""
    best = None
    for fs in traceback.extract_tb(tb):
        if fs.filename.startswith("/repo/"):
            best = (f"{fs.filename[6:]}:{fs.name}", (fs.line or "").strip())
    return best


def explore(run_path, max_paths=2000, timeout_ms=20000, deadline=None):
    """run_path(ctx) -> list of claim records.  Returns (results, stats)."""
    results = []
    trail = []
    stats = dict(paths=0, queries=0, solver_s=0.0, unknown_queries=0, exhausted=True)
    while True:
        c = Ctx(trail, timeout_ms=timeout_ms)
        Ctx.cur = c
        stats["paths"] += 1
        try:
            claims = run_path(c)
            results.append(PathResult("ok", None, claims, list(c.decisions)))
        except PathAbort:
            results.append(PathResult("infeasible", None, getattr(c, "claims", None)))
        except Unsupported as e:
            results.append(PathResult("unsupported", f"{e} @ {_tb_where(e)}", getattr(c, "claims", None)))
        except BudgetExceeded as e:
            results.append(PathResult("budget", str(e)))
        except SolverUnknown as e:
            results.append(PathResult("unknown", str(e)))
        except RecursionError as e:
            results.append(PathResult("budget", "recursion"))
        finally:
            Ctx.cur = None
        stats["queries"] += c.queries
        stats["solver_s"] += c.solver_s
        stats["unknown_queries"] += c.unknowns
        trail = c.trail[: c.pos] if c.pos < len(c.trail) else c.trail
        while trail and trail[-1][1]:
            trail.pop()
        if not trail:
            break
        trail[-1] = [not trail[-1][0], True, True]
        if stats["paths"] >= max_paths or (deadline and time.time() > deadline):
            stats["exhausted"] = False
            break
    return results, stats


def _tb_where(e):
    tb = e.__traceback__
    w = innermost_repo_frame(tb)
    if w:
        return f"{w[0]}: {w[1]}"
    fs = traceback.extract_tb(tb)
    return f"{fs[-1].filename}:{fs[-1].lineno}" if fs else "?"

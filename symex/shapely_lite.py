"""shapely-lite: contract stub of the small part of shapely that commonroad-io uses (DESIGN.md 1.4).

Geometries keep their coordinates as Python numbers or proxies; predicates are built as z3 formulas
from the textbook definitions (closed sets):
  * point in simple polygon      = on an edge, or odd crossing number (convex rings: on the inner side of every edge)
  * polygon / polygon intersect  = a vertex of one lies in the other, or two edges cross properly
  * disc / polygon intersect     = centre inside, or some edge within distance r of the centre
``Point.buffer(r)`` is the exact closed disc (shapely's 64-gon approximation is outside the claim).
Concrete sub-computations stay in Python floats; only symbolic parts become z3 terms.
"""
import numpy as _np
import z3

from . import symmath
from .core import Sym, SymBool, SymReal, Unsupported, ctx, lift, _toreal


# ---- mixed concrete / symbolic values ---------------------------------------------------------
def _t(v):
    """coordinate -> Python float (concrete) or z3 real term (symbolic)"""
    if isinstance(v, (int, float)) and not isinstance(v, bool):
        return float(v)
    e = v.e if isinstance(v, Sym) else lift(v)
    if e is NotImplemented:
        raise Unsupported(f"shapely-lite: coordinate of type {type(v)}")
    e = _toreal(e)
    if z3.is_rational_value(e):
        return e.numerator_as_long() / e.denominator_as_long()
    return e


def _z(x):
    if isinstance(x, z3.ExprRef):
        return x
    if isinstance(x, bool):
        return z3.BoolVal(x)
    return lift(float(x))


def _w(e):
    """mixed value -> python float if concrete, else proxy"""
    if not isinstance(e, z3.ExprRef):
        return float(e)
    e = z3.simplify(e)
    if z3.is_rational_value(e):
        return e.numerator_as_long() / e.denominator_as_long()
    return SymReal(e)


def _sb(e):
    if isinstance(e, bool):
        return e
    e = z3.simplify(e)
    if z3.is_true(e):
        return True
    if z3.is_false(e):
        return False
    return SymBool(e)


def _args(xs):
    return xs[0] if len(xs) == 1 and isinstance(xs[0], (list, tuple)) else xs


def And(*xs):
    out = []
    for x in _args(xs):
        if x is True:
            continue
        if x is False:
            return False
        out.append(x)
    if not out:
        return True
    return out[0] if len(out) == 1 else z3.And(out)


def Or(*xs):
    out = []
    for x in _args(xs):
        if x is False:
            continue
        if x is True:
            return True
        out.append(x)
    if not out:
        return False
    return out[0] if len(out) == 1 else z3.Or(out)


def Not(x):
    return (not x) if isinstance(x, bool) else z3.Not(x)


def Xor(a, b):
    if isinstance(a, bool):
        return Not(b) if a else b
    if isinstance(b, bool):
        return Not(a) if b else a
    return z3.Xor(a, b)


def If(c, a, b):
    if isinstance(c, bool):
        return a if c else b
    return z3.If(c, _z(a), _z(b))


def _dec(e):
    return e if isinstance(e, bool) else ctx().decide(e)


def _min2(a, b):
    return If(a <= b, a, b)


def _max2(a, b):
    return If(a >= b, a, b)


def _zmin(xs):
    m = xs[0]
    for x in xs[1:]:
        m = _min2(x, m)
    return m


def _zmax(xs):
    m = xs[0]
    for x in xs[1:]:
        m = _max2(x, m)
    return m


# ---- predicates ------------------------------------------------------------------------------
def _cross(ax, ay, bx, by, cx, cy):
    """(b-a) x (c-a)"""
    return (bx - ax) * (cy - ay) - (by - ay) * (cx - ax)


def _on_segment(ax, ay, bx, by, px, py):
    return And(_cross(ax, ay, bx, by, px, py) == 0, px >= _min2(ax, bx), px <= _max2(ax, bx),
               py >= _min2(ay, by), py <= _max2(ay, by))


def point_in_ring(ring, px, py):
    """closed point-in-polygon test; ring = list of (x, y), not repeated at the end"""
    n = len(ring)
    on_b = []
    cross = []
    for i in range(n):
        ax, ay = ring[i]
        bx, by = ring[(i + 1) % n]
        on_b.append(_on_segment(ax, ay, bx, by, px, py))
        # ray to the right: the edge straddles the horizontal line through p, and p is left of the edge there
        straddle = Xor(ay > py, by > py)
        # px < ax + (bx-ax)*(py-ay)/(by-ay)  (by != ay on a straddling edge); multiplied by (by-ay) with its sign
        lhs = (px - ax) * (by - ay)
        rhs = (bx - ax) * (py - ay)
        left = If(by > ay, lhs < rhs, lhs > rhs)
        cross.append(And(straddle, left))
    parity = cross[0]
    for c in cross[1:]:
        parity = Xor(parity, c)
    return Or(Or(on_b), parity)


def _seg_cross_properly(a, b, c, d):
    """the open segments ab and cd cross in a single interior point"""
    d1 = _cross(c[0], c[1], d[0], d[1], a[0], a[1])
    d2 = _cross(c[0], c[1], d[0], d[1], b[0], b[1])
    d3 = _cross(a[0], a[1], b[0], b[1], c[0], c[1])
    d4 = _cross(a[0], a[1], b[0], b[1], d[0], d[1])
    return And(Or(And(d1 > 0, d2 < 0), And(d1 < 0, d2 > 0)), Or(And(d3 > 0, d4 < 0), And(d3 < 0, d4 > 0)))


def _seg_within(a, b, cx, cy, r):
    """distance from (cx,cy) to the closed segment ab is <= r (r >= 0)"""
    ax, ay = a
    bx, by = b
    ux, uy = bx - ax, by - ay
    t = (cx - ax) * ux + (cy - ay) * uy
    l2 = ux * ux + uy * uy
    da = (cx - ax) * (cx - ax) + (cy - ay) * (cy - ay)
    db = (cx - bx) * (cx - bx) + (cy - by) * (cy - by)
    cr = _cross(ax, ay, bx, by, cx, cy)
    r2 = r * r
    return If(t <= 0, da <= r2, If(t >= l2, db <= r2, cr * cr <= r2 * l2))


def _signed_area(ring):
    n = len(ring)
    s = 0.0
    for i in range(n):
        ax, ay = ring[i]
        bx, by = ring[(i + 1) % n]
        s = s + (ax * by - bx * ay)
    return s / 2


# ---- geometry classes ---------------------------------------------------------------------------
class _Coords(list):
    @property
    def xy(self):
        return [c[0] for c in self], [c[1] for c in self]


class _Ring:
    def __init__(self, pts):
        self._pts = pts  # list of (x, y) python/proxy values, closed (first == last)

    @property
    def coords(self):
        return _Coords(tuple(p) for p in self._pts)

    @property
    def xy(self):
        return self.coords.xy

    @property
    def is_ccw(self):
        return _sb(_signed_area([(_t(x), _t(y)) for x, y in self._pts[:-1]]) > 0)


class BaseGeometry:
    is_empty = False
    is_valid = True


class Point(BaseGeometry):
    geom_type = "Point"

    def __init__(self, *args):
        if len(args) == 1:
            a = args[0]
            if isinstance(a, Point):
                self.x, self.y = a.x, a.y
                return
            a = list(a)
            self.x, self.y = a[0], a[1]
        else:
            self.x, self.y = args[0], args[1]

    @property
    def coords(self):
        return _Coords([(self.x, self.y)])

    @property
    def bounds(self):
        return (self.x, self.y, self.x, self.y)

    def buffer(self, distance, *a, **k):
        return Disc(self.x, self.y, distance)

    def intersects(self, other):
        return other.intersects(self)

    def within(self, other):
        return other.intersects(self)

    def distance(self, other):
        if isinstance(other, Point):
            return symmath.hypot(self.x - other.x, self.y - other.y)
        raise Unsupported("shapely-lite: Point.distance to " + type(other).__name__)


class Disc(BaseGeometry):
    """closed disc; what Point.buffer(r) denotes"""
    geom_type = "Polygon"

    def __init__(self, x, y, r):
        self.x, self.y, self.r = x, y, r

    @property
    def bounds(self):
        return (self.x - self.r, self.y - self.r, self.x + self.r, self.y + self.r)

    @property
    def area(self):
        raise Unsupported("shapely-lite: area of a disc (pi r^2) is not modelled")

    @property
    def centroid(self):
        return Point(self.x, self.y)

    def _contains_pt(self, px, py):
        cx, cy, r = _t(self.x), _t(self.y), _t(self.r)
        return And(r >= 0, (px - cx) * (px - cx) + (py - cy) * (py - cy) <= r * r)

    def intersects(self, other):
        if isinstance(other, Point):
            return _sb(self._contains_pt(_t(other.x), _t(other.y)))
        if isinstance(other, Disc):
            cx, cy, r = _t(self.x), _t(self.y), _t(self.r)
            ox, oy, orr = _t(other.x), _t(other.y), _t(other.r)
            return _sb(And(r >= 0, orr >= 0, (cx - ox) * (cx - ox) + (cy - oy) * (cy - oy) <= (r + orr) * (r + orr)))
        if isinstance(other, (Polygon, MultiPolygon)):
            return other.intersects(self)
        raise Unsupported("shapely-lite: Disc.intersects " + type(other).__name__)


class Polygon(BaseGeometry):
    geom_type = "Polygon"

    def __init__(self, shell=None, holes=None):
        if holes:
            raise Unsupported("shapely-lite: polygons with holes")
        if isinstance(shell, Polygon):
            pts = list(shell._pts)
        else:
            pts = [tuple(p)[:2] for p in (shell if not isinstance(shell, _np.ndarray) else list(shell))]
        if len(pts) < 3:
            raise ValueError("A linearring requires at least 4 coordinates.")
        if not _same_pt(pts[0], pts[-1]):
            pts = pts + [pts[0]]
        elif len(pts) < 4:
            raise ValueError("A linearring requires at least 4 coordinates.")
        self._pts = pts

    def _ring(self):
        if not hasattr(self, "_ring_cache"):
            self._ring_cache = [(_t(x), _t(y)) for x, y in self._pts[:-1]]
        return self._ring_cache

    def __deepcopy__(self, memo):
        return Polygon(list(self._pts))

    @property
    def exterior(self):
        return _Ring(self._pts)

    @property
    def interiors(self):
        return []

    @property
    def bounds(self):
        r = self._ring()
        xs, ys = [p[0] for p in r], [p[1] for p in r]
        return (_w(_zmin(xs)), _w(_zmin(ys)), _w(_zmax(xs)), _w(_zmax(ys)))

    @property
    def area(self):
        a = _signed_area(self._ring())
        return _w(If(a >= 0, a, -a))

    @property
    def centroid(self):
        r = self._ring()
        n = len(r)
        a = _signed_area(r)
        if not _dec(a != 0):
            raise Unsupported("shapely-lite: centroid of a degenerate polygon")
        cx = cy = 0.0
        for i in range(n):
            ax, ay = r[i]
            bx, by = r[(i + 1) % n]
            w = ax * by - bx * ay
            cx = cx + (ax + bx) * w
            cy = cy + (ay + by) * w
        return Point(_w(cx / (6 * a)), _w(cy / (6 * a)))

    def _convexity(self):
        """+1: convex counter-clockwise, -1: convex clockwise, 0: not (known to be) convex; decided once per polygon
        (a fork when the vertices are symbolic).  Convex rings get the simpler same-side test."""
        if hasattr(self, "_convex"):
            return self._convex
        r = self._ring()
        n = len(r)
        self._convex = 0
        if n <= 6:
            cr = [_cross(r[i][0], r[i][1], r[(i + 1) % n][0], r[(i + 1) % n][1], r[(i + 2) % n][0], r[(i + 2) % n][1])
                  for i in range(n)]
            if _dec(And([x >= 0 for x in cr] + [Or([x > 0 for x in cr])])):
                self._convex = 1
            elif _dec(And([x <= 0 for x in cr] + [Or([x < 0 for x in cr])])):
                self._convex = -1
        return self._convex

    def _contains_pt(self, px, py):
        ring = self._ring()
        cv = self._convexity()
        if cv == 0:
            return point_in_ring(ring, px, py)
        n = len(ring)
        sides = [_cross(ring[i][0], ring[i][1], ring[(i + 1) % n][0], ring[(i + 1) % n][1], px, py) for i in range(n)]
        return And([x >= 0 for x in sides]) if cv > 0 else And([x <= 0 for x in sides])

    def intersects(self, other):
        ring = self._ring()
        if isinstance(other, Point):
            return _sb(self._contains_pt(_t(other.x), _t(other.y)))
        if isinstance(other, Disc):
            cx, cy, r = _t(other.x), _t(other.y), _t(other.r)
            n = len(ring)
            near = [_seg_within(ring[i], ring[(i + 1) % n], cx, cy, r) for i in range(n)]
            return _sb(And(r >= 0, Or(self._contains_pt(cx, cy), Or(near))))
        if isinstance(other, Polygon):
            # two closed simple polygons meet iff a vertex of one lies in the other or two edges cross properly
            # (touching / overlapping edges always put an end point of one edge on the other polygon)
            o = other._ring()
            n, m = len(ring), len(o)
            if n * m > 144:
                raise Unsupported("shapely-lite: polygon/polygon test beyond 144 edge pairs")
            parts = [other._contains_pt(x, y) for x, y in ring] + [self._contains_pt(x, y) for x, y in o]
            parts += [_seg_cross_properly(ring[i], ring[(i + 1) % n], o[j], o[(j + 1) % m]) for i in range(n) for j in range(m)]
            return _sb(Or(parts))
        if isinstance(other, MultiPolygon):
            return _any(self.intersects(g) for g in other.geoms)
        raise Unsupported("shapely-lite: Polygon.intersects " + type(other).__name__)

    def contains(self, other):
        raise Unsupported("shapely-lite: Polygon.contains " + type(other).__name__)

    @property
    def wkb(self):
        r = self._ring()
        if any(isinstance(v, z3.ExprRef) for p in r for v in p):
            raise Unsupported("shapely-lite: wkb of a polygon with symbolic coordinates")
        import struct

        return b"lite-polygon" + b"".join(struct.pack("<dd", x, y) for x, y in r + r[:1])

    @property
    def wkt(self):
        return self.wkb.hex()

    # shapely 2 geometries compare and hash by their coordinates (structurally, in vertex order), not by identity
    def __eq__(self, other):
        if not isinstance(other, Polygon):
            return NotImplemented
        a, b = self._ring(), other._ring()
        if len(a) != len(b):
            return False
        conds = []
        for p, q in zip(a, b):
            for u, v in zip(p, q):
                if isinstance(u, z3.ExprRef) or isinstance(v, z3.ExprRef):
                    conds.append(lift(u) == lift(v))
                elif u != v:
                    return False
        return bool(SymBool(z3.And(conds))) if conds else True

    def __ne__(self, other):
        r = self.__eq__(other)
        return r if r is NotImplemented else not r

    def __hash__(self):
        r = self._ring()
        if any(isinstance(v, z3.ExprRef) for p in r for v in p):
            return 0  # symbolic coordinates: one bucket, equality decides
        return hash(tuple(tuple(float(v) for v in p) for p in r))

    def buffer(self, d, *a, **k):
        if d == 0:
            return self
        raise Unsupported("shapely-lite: Polygon.buffer")


def _any(it):
    res = False
    for x in it:
        if isinstance(x, Sym):
            res = x if res is False else SymBool(z3.Or(lift(res), x.e))
        elif x:
            return True
    return res


class MultiPolygon(BaseGeometry):
    geom_type = "MultiPolygon"

    def __init__(self, polys):
        self.geoms = list(polys)

    def intersects(self, other):
        return _any(g.intersects(other) for g in self.geoms)


def _same_pt(p, q):
    for a, b in zip(p, q):
        if isinstance(a, Sym) or isinstance(b, Sym):
            ea, eb = z3.simplify(_z(_t(a))), z3.simplify(_z(_t(b)))
            if not ea.eq(eb):
                return False
        elif a != b:
            return False
    return True


class STRtree:
    """STRtree-lite: stores the geometries it is given; queries are answered by brute force with the predicates above.
    Without a predicate every stored geometry is a candidate (the real tree returns a superset by envelope, callers
    re-filter); `dwithin` with the 1e-15 tolerance the library uses is answered as closed intersection."""

    def __init__(self, geoms, node_capacity=10):
        self.geometries = list(geoms)

    def __len__(self):
        return len(self.geometries)

    def query(self, geometry, predicate=None, distance=None):
        many = isinstance(geometry, (list, tuple, _np.ndarray))
        inputs = list(geometry) if many else [geometry]
        pairs = []
        for i, g in enumerate(inputs):
            for j, t in enumerate(self.geometries):
                if predicate is None:
                    hit = True
                elif predicate in ("intersects", "dwithin"):
                    if predicate == "dwithin" and distance is not None and distance > 1e-9:
                        raise Unsupported("STRtree-lite: dwithin with a non-negligible distance")
                    hit = bool(t.intersects(g))
                else:
                    raise Unsupported(f"STRtree-lite: predicate {predicate}")
                if hit:
                    pairs.append((i, j))
        if many:
            return _np.array([[a for a, _ in pairs], [b for _, b in pairs]], dtype=int).reshape(2, len(pairs))
        return _np.array([b for _, b in pairs], dtype=int)


# ---- module-like namespaces ----------------------------------------------------------------
class _NS:
    def __init__(self, **k):
        self.__dict__.update(k)


def _orient(polygon, sign=1.0):
    r = polygon._ring()
    a = _signed_area(r)
    ccw = _dec(a > 0)
    want_ccw = sign >= 0
    if ccw == want_ccw or (not ccw and not _dec(a != 0)):
        return Polygon(list(polygon._pts))
    return Polygon(list(reversed(polygon._pts)))


def _rotate(geom, angle, origin="center", use_radians=False):
    if not use_radians:
        angle = angle * (symmath.pi / 180.0)
    if origin == "centroid":
        c = geom.centroid
        ox, oy = c.x, c.y
    elif origin == "center":
        b = geom.bounds
        ox, oy = (b[0] + b[2]) / 2, (b[1] + b[3]) / 2
    else:
        ox, oy = origin[0], origin[1]
    co, si = symmath.cos(angle), symmath.sin(angle)
    pts = []
    for x, y in geom._pts:
        dx, dy = x - ox, y - oy
        pts.append((ox + co * dx - si * dy, oy + si * dx + co * dy))
    return Polygon(pts)


def _translate(geom, xoff=0.0, yoff=0.0, zoff=0.0):
    return Polygon([(x + xoff, y + yoff) for x, y in geom._pts])


geometry = _NS(Polygon=Polygon, Point=Point, MultiPolygon=MultiPolygon,
               polygon=_NS(orient=_orient, Polygon=Polygon), base=_NS(BaseGeometry=BaseGeometry))
affinity = _NS(rotate=_rotate, translate=_translate)
shapely = _NS(geometry=geometry, affinity=affinity, Polygon=Polygon, Point=Point)

"""Installation of module-global shadows in freshly imported /repo modules (DESIGN.md 1.2).

A module global shadows the builtin of the same name, so assigning ``mod.isinstance = ...`` changes
what the *unedited* code of that module calls.  Installed in the (forked) worker of a symbolic run
only; concrete replays run without any of this.
"""
import builtins
import sys

import z3

from . import hashkeys, shapely_lite, symmath
from .core import Sym, SymBool, SymInt, SymNum, SymReal, Unsupported, ctx
from .npx import npx

INSTALLED = []  # human-readable list for the evidence file

_float, _int, _isinstance, _round, _bool = builtins.float, builtins.int, builtins.isinstance, builtins.round, builtins.bool


def sym_isinstance(o, cls):
    if _isinstance(o, Sym):
        t = cls if _isinstance(cls, tuple) else (cls,)
        flat = []
        for x in t:
            if _isinstance(x, tuple):
                flat.extend(x)
            else:
                flat.append(x)
        flat = [_float if x is sym_float else _int if x is sym_int else x for x in flat]
        cls = tuple(flat)
        if _isinstance(o, SymReal) and _float in flat:
            return True
        if _isinstance(o, SymInt) and _int in flat:
            return True
        if _isinstance(o, SymBool) and (_bool in flat or _int in flat):
            return True
        return _isinstance(o, cls)
    if cls is sym_float:
        cls = _float
    elif cls is sym_int:
        cls = _int
    elif _isinstance(cls, tuple) and (sym_float in cls or sym_int in cls):
        cls = tuple(_float if x is sym_float else _int if x is sym_int else x for x in cls)
    return _isinstance(o, cls)


class _FloatShim(type):
    def __instancecheck__(cls, o):
        return _isinstance(o, (_float, SymReal))


class sym_float(metaclass=_FloatShim):
    """float(x): identity on symbolic reals, exact conversion of symbolic ints"""

    def __new__(cls, x=0.0):
        if _isinstance(x, SymReal):
            return x
        if _isinstance(x, SymInt):
            return SymReal(z3.ToReal(x.e))
        if _isinstance(x, SymBool):
            return SymReal(z3.If(x.e, z3.RealVal(1), z3.RealVal(0)))
        if hasattr(x, "__symfloat__"):
            return x.__symfloat__()
        if _isinstance(x, str):
            from . import strs

            p = strs.single_token(x)
            if p is not None:  # contract: float(repr(x)) == x, float(str(n)) == n
                return sym_float(p)
        return _float(x)


class _IntShim(type):
    def __instancecheck__(cls, o):
        return _isinstance(o, (_int, SymInt))


class sym_int(metaclass=_IntShim):
    def __new__(cls, x=0, *a):
        if _isinstance(x, SymInt):
            return x
        if _isinstance(x, SymReal):
            return x.__trunc__()
        if _isinstance(x, SymBool):
            return SymInt(z3.If(x.e, z3.IntVal(1), z3.IntVal(0)))
        if hasattr(x, "__symint__"):
            return x.__symint__()
        if _isinstance(x, str):
            from . import strs

            p = strs.single_token(x)
            if p is not None:  # contract: int(str(n)) == n
                if _isinstance(p, SymInt):
                    return p
                raise Unsupported(f"int() of the rendering of a {type(p).__name__}")
        return _int(x, *a)


def sym_round(x, n=None):
    if _isinstance(x, Sym):
        return x.__round__(n)
    return _round(x, n)


def sym_abs(x):
    return abs(x)


def install(extra_numbers=True):
    """shadow builtins / math / numpy in every loaded commonroad module"""
    import commonroad.common.validity as validity

    validity.ValidTypes.NUMBERS = tuple(validity.ValidTypes.NUMBERS) + (SymNum,)
    validity.ValidTypes.INT_NUMBERS = tuple(validity.ValidTypes.INT_NUMBERS) + (SymInt,)
    INSTALLED.append("validity.ValidTypes.NUMBERS/INT_NUMBERS extended by the proxy classes")
    n = 0
    for name, mod in list(sys.modules.items()):
        if not name.startswith("commonroad.") or mod is None:
            continue
        if ".generated_scripts" in name:
            continue
        d = mod.__dict__
        d["isinstance"] = sym_isinstance
        d["float"] = sym_float
        d["int"] = sym_int
        d["round"] = sym_round
        d["hash"] = hashkeys.sym_hash
        d["frozenset"] = hashkeys.sym_frozenset
        if "math" in d:
            d["math"] = symmath
        if "shapely" in d and getattr(d["shapely"], "__name__", "") == "shapely":
            d["shapely"] = shapely_lite.shapely
        if "ShapelyPolygon" in d:
            d["ShapelyPolygon"] = shapely_lite.Polygon
        if "ShapelyPoint" in d:
            d["ShapelyPoint"] = shapely_lite.Point
        if "STRtree" in d:
            d["STRtree"] = shapely_lite.STRtree
        for alias in ("np", "npy", "numpy"):
            if alias in d and getattr(d[alias], "__name__", "") == "numpy":
                d[alias] = npx
        n += 1
    INSTALLED.append(f"isinstance/float/int/round/hash/frozenset/math/np/shapely shadowed in {n} commonroad modules (shapely -> shapely-lite)")
    return n

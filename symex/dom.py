"""DOM passthrough (DESIGN.md 1.4): a minimal ElementTree look-alike whose text and attribute values may be any object
(proxies, symbolic numerals).  The XML writer's ``etree`` global is pointed here; the tree it builds is handed to the
reader's factories directly.  Serialisation / parsing (lxml, expat) are outside the claim: the contract assumed is that
they preserve element order, names, attributes and text."""
from .core import Unsupported


class Element:
    def __init__(self, tag, attrib=None, **extra):
        self.tag = tag
        self.attrib = dict(attrib or {})
        self.attrib.update(extra)
        self.text = None
        self.tail = None
        self._children = []

    # -- construction
    def set(self, key, value):
        self.attrib[key] = value

    def append(self, el):
        self._children.append(el)

    def extend(self, els):
        self._children.extend(els)

    def insert(self, i, el):
        self._children.insert(i, el)

    def remove(self, el):
        self._children.remove(el)

    # -- access
    def get(self, key, default=None):
        return self.attrib.get(key, default)

    def keys(self):
        return list(self.attrib)

    def items(self):
        return list(self.attrib.items())

    def __iter__(self):
        return iter(list(self._children))

    def __len__(self):
        return len(self._children)

    def __getitem__(self, i):
        return self._children[i]

    def __bool__(self):  # like ElementTree: an element without children is falsy only through len(); keep truthy
        return True

    def getchildren(self):
        return list(self._children)

    def _match(self, path):
        if "/" in path or "[" in path or path.startswith("."):
            parts = [p for p in path.split("/") if p not in ("", ".")]
            nodes = [self]
            for p in parts:
                nodes = [c for n in nodes for c in n._children if p == "*" or c.tag == p]
            return nodes
        return [c for c in self._children if path == "*" or c.tag == path]

    def find(self, path):
        m = self._match(path)
        return m[0] if m else None

    def findall(self, path):
        return self._match(path)

    def findtext(self, path, default=None):
        e = self.find(path)
        return default if e is None else (e.text or "")

    def iter(self, tag=None):
        if tag is None or tag == "*" or self.tag == tag:
            yield self
        for c in self._children:
            yield from c.iter(tag)

    def __repr__(self):
        return f"<Element {self.tag!r} {len(self._children)} children>"


def SubElement(parent, tag, attrib=None, **extra):
    el = Element(tag, attrib, **extra)
    parent.append(el)
    return el


class ElementTree:
    def __init__(self, element=None):
        self._root = element
        self.written = []

    def getroot(self):
        return self._root

    def find(self, path):
        return self._root.find(path)

    def findall(self, path):
        return self._root.findall(path)

    def iter(self, tag=None):
        return self._root.iter(tag)

    def write(self, filename, *a, **k):
        self.written.append(filename)
        WRITES.append((filename, self._root))


WRITES = []  # (filename, root) of every ElementTree.write call (the bytes on disk are the serialiser's business)


def tostring(*a, **k):
    raise Unsupported("serialising a symbolic DOM tree")


def fromstring(*a, **k):
    raise Unsupported("parsing XML text in a symbolic run")


def dump_structure(el, leaf=lambda x: x):
    """nested plain-data view of a tree (tag, attributes, text, children) for structural comparison"""
    return (el.tag, tuple(sorted((k, leaf(v)) for k, v in el.attrib.items())), leaf(el.text), tuple(dump_structure(c, leaf) for c in el))

"""Structural stand-in for hash() on objects that hold proxies (DESIGN.md, C12).

``hash`` and ``frozenset`` are shadowed in the modules under test.  ``hash(x)`` returns a *key*: a nested structure with
the same shape as the tuple the class hashes, proxy leaves kept as terms.  Equality of keys stands for equality of
hashes (collisions are not a property).  TypeError is raised exactly where the builtin would raise (lists, sets, dicts,
dict views, numpy arrays, iterating None)."""
import builtins
import enum
import itertools

import numpy as np
import z3

from .core import Sym, SymBool, lift
from .npx import _ArrayKey

_hash, _frozenset = builtins.hash, builtins.frozenset


class Key:
    __slots__ = ("kind", "items")

    def __init__(self, kind, items):
        self.kind = kind  # "tuple" | "fset" | "obj:<class>" | "arr"
        self.items = items

    def __repr__(self):
        return f"Key({self.kind}, {self.items!r})"

    def __hash__(self):
        return _hash((self.kind, len(self.items)))

    def __eq__(self, other):  # structural equality, decided through the solver where leaves are symbolic
        r = key_equal(self, other)
        return bool(r)


def _key(o):
    if isinstance(o, Key):
        return o
    if isinstance(o, Sym):
        return o
    if o is None or isinstance(o, (bool, int, float, str, bytes, enum.Enum, np.integer, np.floating, np.bool_)):
        return o
    if isinstance(o, tuple):
        return Key("tuple", [_key(e) for e in o])
    if isinstance(o, _frozenset):
        return Key("fset", [_key(e) for e in o])
    if isinstance(o, _ArrayKey):
        return Key("arr", [o.arr.shape] + [_key(e) for e in o.arr.flat])
    if isinstance(o, (list, set, dict, bytearray, np.ndarray)) or type(o).__name__ in ("dict_items", "dict_keys", "dict_values"):
        raise TypeError(f"unhashable type: '{type(o).__name__}'")
    h = type(o).__hash__
    if h is None:
        raise TypeError(f"unhashable type: '{type(o).__name__}'")
    if h is object.__hash__:
        return ("identity", id(o))
    return Key("obj:" + type(o).__name__, [h(o)])


def sym_hash(o):
    return _key(o)


def sym_frozenset(iterable=()):
    if iterable is None:
        raise TypeError("'NoneType' object is not iterable")
    return Key("fset", [_key(e) for e in iterable])


def key_equal(a, b):
    """bool or SymBool"""
    if isinstance(a, Sym) or isinstance(b, Sym):
        ea, eb = lift(a), lift(b)
        if ea is NotImplemented or eb is NotImplemented:
            return False
        if z3.is_bool(ea) != z3.is_bool(eb):
            return False
        r = z3.simplify(ea == eb)
        return True if z3.is_true(r) else False if z3.is_false(r) else SymBool(r)
    if isinstance(a, Key) != isinstance(b, Key):
        return False
    if not isinstance(a, Key):
        return a == b
    if a.kind != b.kind or len(a.items) != len(b.items):
        if a.kind == b.kind == "fset":
            return _fset_equal(a.items, b.items)
        return False
    if a.kind == "fset":
        return _fset_equal(a.items, b.items)
    parts = [key_equal(x, y) for x, y in zip(a.items, b.items)]
    return _and(parts)


def _and(parts):
    if any(p is False for p in parts):
        return False
    sym = [p.e for p in parts if isinstance(p, SymBool)]
    if not sym:
        return all(bool(p) for p in parts)
    return SymBool(z3.And(sym))


def _or(parts):
    if any(p is True for p in parts):
        return True
    sym = [p.e for p in parts if isinstance(p, SymBool)]
    if not sym:
        return any(bool(p) for p in parts)
    return SymBool(z3.Or(sym))


def _dedup(items):
    out = []
    for x in items:
        if not any(key_equal(x, y) is True for y in out):
            out.append(x)
    return out


def _fset_equal(xs, ys):
    xs, ys = _dedup(xs), _dedup(ys)
    if len(xs) != len(ys):
        # sets with symbolic members could still coincide; only small concrete-size sets are compared exactly
        if not any(isinstance(v, Sym) for v in xs + ys):
            return False
    if len(xs) > 4 or len(xs) != len(ys):
        return _and([_or([key_equal(x, y) for y in ys]) for x in xs] + [_or([key_equal(x, y) for x in xs]) for y in ys])
    return _or([_and([key_equal(x, ys[j]) for x, j in zip(xs, perm)]) for perm in itertools.permutations(range(len(ys)))])

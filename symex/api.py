"""Value-factory interface of the dual-mode harnesses (DESIGN.md 1.3 / 1.7).

The same harness body runs
  * symbolically: ``SymV`` hands out proxies, claims go to the solver;
  * concretely  : ``ConcV`` hands out plain Python numbers from a model / fixture, no shims are
    installed, claims are evaluated numerically (replay of counterexamples, stub validation).
"""
import math
from fractions import Fraction

import z3

from . import symmath
from .core import (
    Ctx,
    PathAbort,
    Sym,
    SymBool,
    SymInt,
    SymReal,
    Unsupported,
    lift,
    _toreal,
)

OBLIGATIONS = {}  # property id -> list of Obligation


class Obligation:
    def __init__(self, fn, prop, name, tier, bounds, functions, outside, max_paths, note, expect_unreached):
        self.fn = fn
        self.prop = prop
        self.name = name
        self.tier = tier
        self.bounds = bounds
        self.functions = functions
        self.outside = outside
        self.max_paths = max_paths
        self.note = note
        self.expect_unreached = expect_unreached

    @property
    def oid(self):
        return f"{self.prop}/{self.name}"


def obligation(prop, name, tier="quick", bounds="", functions=(), outside="", max_paths=None, note="",
               expect_unreached=()):
    def deco(fn):
        ob = Obligation(fn, prop, name, tier, bounds, list(functions), outside, max_paths, note,
                        tuple(expect_unreached))
        OBLIGATIONS.setdefault(prop, []).append(ob)
        return fn

    return deco


class ClaimRecord:
    __slots__ = ("label", "status", "values", "detail")

    def __init__(self, label, status, values=None, detail=None):
        self.label = label
        self.status = status  # ok | fail | unknown
        self.values = values
        self.detail = detail


class ReplayMismatch(Exception):
    """concrete values do not satisfy a harness assumption"""


class _VBase:
    symbolic = False
    pi = math.pi
    two_pi = 2.0 * math.pi

    # -- logic helpers (work on proxies and on plain Python values) --------------------------
    def And(self, *xs):
        xs = _flat(xs)
        if not any(isinstance(x, Sym) for x in xs):
            return all(bool(x) for x in xs)
        return SymBool(z3.And([_b(x) for x in xs]))

    def Or(self, *xs):
        xs = _flat(xs)
        if not any(isinstance(x, Sym) for x in xs):
            return any(bool(x) for x in xs)
        return SymBool(z3.Or([_b(x) for x in xs]))

    def Not(self, x):
        if not isinstance(x, Sym):
            return not bool(x)
        return SymBool(z3.Not(_b(x)))

    def Implies(self, a, b):
        return self.Or(self.Not(a), b)

    def iff(self, a, b):
        if not (isinstance(a, Sym) or isinstance(b, Sym)):
            return bool(a) == bool(b)
        return SymBool(_b(a) == _b(b))

    def If(self, c, a, b):
        if not isinstance(c, Sym):
            return a if c else b
        ea, eb = lift(a), lift(b)
        if z3.is_int(ea) != z3.is_int(eb):
            ea, eb = _toreal(ea), _toreal(eb)
        from .core import wrap

        return wrap(z3.If(_b(c), ea, eb))

    def abs(self, x):
        return abs(x)

    def max(self, a, b):
        return self.If(a >= b, a, b)

    def min(self, a, b):
        return self.If(a <= b, a, b)

    def close(self, a, b, tol=1e-6):
        """|a-b| <= tol symbolically; concretely the test is at tol/2 so that a solver model
        violating the symbolic claim (by more than tol) reproduces in spite of rounding"""
        d = a - b
        if isinstance(d, Sym):
            t = lift(float(tol))
            return SymBool(z3.And(_toreal(d.e) <= t, -_toreal(d.e) <= t))
        return abs(d) <= tol / 2

    def eq(self, a, b):
        """exact equality for discrete values / term identity for reals"""
        if isinstance(a, Sym) or isinstance(b, Sym):
            r = a == b
            if r is NotImplemented:
                return False
            return r
        if isinstance(a, float) or isinstance(b, float):
            return a == b
        return a == b

    def same(self, a, b):
        """term identity (symbolic) / bit equality (concrete): `a` is the very value `b`"""
        if isinstance(a, Sym) and isinstance(b, Sym):
            return bool(z3.simplify(a.e).eq(z3.simplify(b.e))) or self.eq(a, b)
        return self.eq(a, b)


def _flat(xs):
    out = []
    for x in xs:
        if isinstance(x, (list, tuple)):
            out.extend(_flat(x))
        else:
            out.append(x)
    return out


def _b(x):
    if isinstance(x, SymBool):
        return x.e
    if isinstance(x, Sym):
        return x.e != 0
    try:
        import numpy as np

        if isinstance(x, np.bool_):
            return z3.BoolVal(bool(x))
    except ImportError:
        pass
    return z3.BoolVal(bool(x))


class SymV(_VBase):
    symbolic = True

    def __init__(self, c: Ctx):
        self.c = c
        self.claims = []
        c.claims = self.claims
        self.reached = set()

    # -- inputs --------------------------------------------------------------------------------
    def real(self, name, lo=None, hi=None):
        v = z3.Real(name)
        self.c.inputs[name] = v
        if lo is not None:
            self.c.solver.add(v >= lift(float(lo)) if not isinstance(lo, Sym) else v >= lo.e)
        if hi is not None:
            self.c.solver.add(v <= lift(float(hi)) if not isinstance(hi, Sym) else v <= hi.e)
        return SymReal(v)

    def int(self, name, lo=None, hi=None):
        v = z3.Int(name)
        self.c.inputs[name] = v
        if lo is not None:
            self.c.solver.add(v >= lift(lo))
        if hi is not None:
            self.c.solver.add(v <= lift(hi))
        return SymInt(v)

    def bool(self, name):
        v = z3.Bool(name)
        self.c.inputs[name] = v
        return SymBool(v)

    def string(self, name, regex=None):
        """symbolic string, optionally constrained to a z3 regular expression"""
        from .strs import SymStr

        v = z3.String(name)
        self.c.inputs[name] = v
        if regex is not None:
            self.c.solver.add(z3.InRe(v, regex))
        return SymStr(v)

    def choice(self, name, n):
        """symbolic index 0..n-1, returned as a concrete int (forks)"""
        return self.int(name, 0, n - 1).__index__()

    def flag(self, name):
        """symbolic bool materialised as Python bool (forks)"""
        return bool(self.bool(name))

    # -- assumptions / claims ------------------------------------------------------------------
    def assume(self, cond, note=None):
        self.c.assume(cond, note)

    def prove(self, label, cond):
        c = self.c
        r0 = c.check()
        if r0 == z3.unsat:
            raise PathAbort()
        self.reached.add(label)
        e = _b(cond)
        r = c.check(z3.Not(e))
        if r == z3.unsat:
            self.claims.append(ClaimRecord(label, "ok"))
        elif r == z3.sat:
            m = c.get_model()
            rm = self._trig_witness(z3.Not(e))
            self.claims.append(ClaimRecord(label, "fail", c.model_values(rm if rm is not None else m),
                                           "witness with exact cos/sin at a special angle" if rm is not None else None))
        else:
            reason = c.reason_unknown()
            m = self._pinned_witness(z3.Not(e))
            if m is not None:
                self.claims.append(ClaimRecord(label, "fail", c.model_values(m), "witness found by pinning inputs"))
            else:
                self.claims.append(ClaimRecord(label, "unknown", None, reason))

    def _trig_witness(self, neg):
        """cos/sin of symbolic angles are only axiomatised, so a model may give them values the real functions do not
        take.  Look for a counterexample in which the angle inputs sit at special values (multiples of pi/4, the
        neighbourhood of 0.05, ...) and every cos/sin symbol is pinned to the true value there.  Search for a witness
        only: a hit is replayed on the real code like any other model."""
        import itertools
        import math as _m
        import time as _t

        c = self.c
        entries = [(co, si, a) for (co, si, a) in c.memo.get("trig", {}).values() if not z3.is_rational_value(a)]
        if not entries:
            return None
        inputs = {v.get_id(): v for v in c.inputs.values() if z3.is_real(v)}

        def consts(t, acc):
            if z3.is_const(t) and t.decl().kind() == z3.Z3_OP_UNINTERPRETED:
                acc[t.get_id()] = t
            for ch in t.children():
                consts(ch, acc)
            return acc

        usable, avars = [], {}
        for co, si, a in entries:
            cs = consts(a, {})
            if cs and all(i in inputs for i in cs):
                usable.append((co, si, a))
                avars.update(cs)
        if not usable or len(avars) > 3:
            return None
        q = _m.pi / 4
        special = [k * q for k in (0, 2, -2, 4, -4, 6, -6, 8, -8, 1, -1, 3, -3, 5, -5, 7, -7)] + \
                  [0.05, -0.05, 0.04, -0.04, 0.06, 1e-3, 1.0, -1.0, 2.0, 3.0, 0.3, -0.7]
        per = {1: len(special), 2: 13, 3: 6}[len(avars)]
        vs = list(avars.values())
        saved = (c.timeout_ms, c.fast_ms)
        c.timeout_ms, c.fast_ms = 2000, 1000
        t0 = _t.time()
        try:
            for combo in itertools.product(special[:per], repeat=len(vs)):
                if _t.time() - t0 > 25:
                    break
                pins = [v == lift(float(x)) for v, x in zip(vs, combo)]
                sub = [(v, lift(float(x))) for v, x in zip(vs, combo)]
                encl = []
                for co, si, a in usable:
                    av = z3.simplify(z3.substitute(a, *sub))
                    if not z3.is_rational_value(av):
                        continue
                    x = av.numerator_as_long() / av.denominator_as_long()
                    eps = 1e-13
                    encl += [co >= lift(_m.cos(x) - eps), co <= lift(_m.cos(x) + eps), si >= lift(_m.sin(x) - eps), si <= lift(_m.sin(x) + eps)]
                if c.check(neg, *pins, *encl) == z3.sat:
                    return c.get_model()
        finally:
            c.timeout_ms, c.fast_ms = saved
        return None

    def _pinned_witness(self, neg):
        """the solver gave up on `path condition and neg`: look for a witness with the real-valued inputs pinned to
        simple values (a search for a counterexample only - a hit is replayed, a miss leaves the claim undecided)"""
        import random

        c = self.c
        rnd = random.Random(12345)
        reals = [v for v in c.inputs.values() if z3.is_real(v)]
        ints = [v for v in c.inputs.values() if z3.is_int(v)]
        cands = [0, 1, -1, 2, -2, 0.5, -0.5, 3, -3, 1.5, 0.25, 10, -10, 0.1, 5, -5, 0.01, 100]
        saved = (c.timeout_ms, c.fast_ms)
        c.timeout_ms, c.fast_ms = 3000, 1500
        try:
            for attempt in range(24):
                pins = []
                for v in reals:
                    if attempt and rnd.random() < 0.15:
                        continue
                    pins.append(v == lift(float(rnd.choice(cands[: 6 + attempt]))))
                for v in ints:
                    if rnd.random() < 0.5:
                        pins.append(v == rnd.choice([0, 1, 2, 3, -1, 5]))
                r = c.check(neg, *pins)
                if r == z3.sat:
                    return c.get_model()
        finally:
            c.timeout_ms, c.fast_ms = saved
        return None

    def fail(self, label, detail=""):
        """the path itself is the violation (e.g. a forbidden exception was caught by the harness)"""
        c = self.c
        r = c.check()
        if r == z3.unsat:
            raise PathAbort()
        self.reached.add(label)
        if r == z3.sat:
            self.claims.append(ClaimRecord(label, "fail", c.model_values(c.get_model()), detail))
        else:
            self.claims.append(ClaimRecord(label, "unknown", None, detail))

    def reach(self, label):
        c = self.c
        if c.check() == z3.unsat:
            raise PathAbort()
        self.reached.add(label)
        self.claims.append(ClaimRecord(label, "ok"))

    # -- numeric helpers ------------------------------------------------------------------------
    def cos(self, x):
        return symmath.cos(x)

    def sin(self, x):
        return symmath.sin(x)

    def sqrt(self, x):
        return symmath.sqrt(x)

    def const(self, x):
        return x

    def toreal(self, x):
        if isinstance(x, SymInt):
            return SymReal(z3.ToReal(x.e))
        return x

    def exists_int(self, lo, hi, pred):
        """finite disjunction over an integer range (bounded quantifier)"""
        return self.Or([pred(k) for k in range(lo, hi + 1)])

    def is_sym(self, x):
        return isinstance(x, Sym)


class ConcV(_VBase):
    symbolic = False

    def __init__(self, values):
        self.values = values
        self.claims = []
        self.reached = set()

    def _get(self, name):
        if name not in self.values:
            raise ReplayMismatch(f"no value for input {name}")
        return self.values[name]

    def real(self, name, lo=None, hi=None):
        v = self._get(name)
        v = float(Fraction(v)) if isinstance(v, str) else float(v)
        if (lo is not None and v < lo) or (hi is not None and v > hi):
            raise ReplayMismatch(f"{name}={v} outside [{lo},{hi}]")
        return v

    def int(self, name, lo=None, hi=None):
        v = int(self._get(name))
        if (lo is not None and v < lo) or (hi is not None and v > hi):
            raise ReplayMismatch(f"{name}={v} outside [{lo},{hi}]")
        return v

    def bool(self, name):
        return bool(self._get(name))

    def string(self, name, regex=None):
        return str(self._get(name))

    def choice(self, name, n):
        return self.int(name, 0, n - 1)

    def flag(self, name):
        return self.bool(name)

    def assume(self, cond, note=None):
        if not bool(cond):
            raise ReplayMismatch(f"assumption failed on concrete values: {note or ''}")

    def prove(self, label, cond):
        self.reached.add(label)
        ok = bool(cond)
        self.claims.append(ClaimRecord(label, "ok" if ok else "fail", self.values))

    def fail(self, label, detail=""):
        self.reached.add(label)
        self.claims.append(ClaimRecord(label, "fail", self.values, detail))

    def reach(self, label):
        self.reached.add(label)
        self.claims.append(ClaimRecord(label, "ok"))

    def cos(self, x):
        return math.cos(x)

    def sin(self, x):
        return math.sin(x)

    def sqrt(self, x):
        return math.sqrt(x)

    def const(self, x):
        return x

    def toreal(self, x):
        return float(x)

    def exists_int(self, lo, hi, pred):
        return any(bool(pred(k)) for k in range(lo, hi + 1))

    def is_sym(self, x):
        return False

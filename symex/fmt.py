"""Number-formatting contract (DESIGN.md 1.4): what ``str(float)``, ``format(f, '.Nf')``, ``str(bool).lower()`` denote, as
objects that carry the value symbolically and answer exactly the string operations the XML writer performs on them.

  * ``SymDec(x)``       = repr of the float x.  CPython/numpy rule: positional ``-?D+.D+`` iff x == 0 or 1e-4 <= |x| < 1e16,
                          otherwise exponent form ``-?D(.D+)?e[+-]DD+``.  Its value is x (contract float(repr(x)) == x).
  * ``SymNumText``      = a positional decimal numeral: the repr truncated to d fraction digits, or ``format(x, '.df')``.
  * ``SymBoolText``     = ``str(b)`` / ``str(b).lower()``.
"""
from fractions import Fraction

import z3

from .core import Sym, SymBool, SymInt, SymReal, Unsupported, ctx, floor_int, lift, round_half_even, _toreal

LO = z3.RealVal("1/10000")
HI = z3.RealVal(10**16)


def exponent_regime(x):
    """z3 Bool: repr(x) uses exponent notation"""
    a = z3.If(x >= 0, x, -x)
    return z3.And(x != 0, z3.Or(a < LO, a >= HI))


EXPONENT_REPRESENTATIVES = [2.5e-05, -2.5e-05, 1e-05, 1.2246467991473533e-15, -3.75e-07, 5e-05, 1.5e+16, 1e+16, 9.999e-05]


class SymDec:
    """str(x) of a symbolic float"""

    def __init__(self, x):
        self.x = x  # SymReal

    def __contains__(self, item):
        if item == "e":
            return ctx().decide(exponent_regime(self.x.e))
        if item == ".":
            return True
        if item in ("nan", "inf"):
            return False
        raise Unsupported(f"{item!r} in str(float)")

    def split(self, sep=None, maxsplit=-1):
        if sep != ".":
            raise Unsupported("str(float).split with another separator")
        if ctx().decide(exponent_regime(self.x.e)):
            # the correct writer never splits an exponent-form repr.  Code that does is followed exactly on representative
            # values ('5e-05' has no '.', '2.5e-05' has one, long mantissas, both signs, both ends of the regime): the float is
            # pinned to each of them in turn (a fork) and the real repr is split; other values stay undecided
            for v in EXPONENT_REPRESENTATIVES:
                fr = Fraction(v)  # the exact binary value of the double
                if ctx().decide(_toreal(self.x.e) == z3.RealVal(f"{fr.numerator}/{fr.denominator}")):
                    return repr(float(v)).split(".")
            raise Unsupported("split('.') of a float repr in exponent notation outside the representative values")
        return [_IntPart(self.x), _FracPart(self.x)]

    def __symfloat__(self):
        return self.x

    def __str__(self):
        return str(self.x)

    def lower(self):
        return self

    def strip(self):
        return self

    def __eq__(self, other):
        if isinstance(other, str):
            return False  # a float repr never equals the literals the reader compares with
        return NotImplemented

    __hash__ = None


class _IntPart:
    def __init__(self, x):
        self.x = x

    def __add__(self, o):
        if o == ".":
            return _Partial(self.x)
        raise Unsupported("integer part of a float repr + " + repr(o))


class _FracPart:
    def __init__(self, x):
        self.x = x

    def __getitem__(self, sl):
        if not isinstance(sl, slice) or sl.start not in (None, 0) or sl.step not in (None, 1):
            raise Unsupported("fraction digits indexed other than [:d]")
        d = sl.stop
        return _FracTrunc(self.x, d)  # d may be symbolic (precision of a writer): SymNumText enumerates it lazily


class _FracTrunc:
    def __init__(self, x, d):
        self.x, self.d = x, d


class _Partial:
    def __init__(self, x):
        self.x = x

    def __add__(self, o):
        if isinstance(o, _FracTrunc) and o.x is self.x:
            return SymNumText("trunc", self.x, o.d)
        raise Unsupported("unexpected concatenation while formatting a float")


def truncate(x, d):
    """x truncated toward zero to d decimals (z3 real term)"""
    scale = z3.RealVal(10**d)
    a = z3.If(x >= 0, x, -x)
    f = z3.ToReal(floor_int(a * scale)) / scale
    return z3.If(x >= 0, f, -f)


class SymNumText:
    """positional decimal numeral with at most / exactly d fraction digits"""

    def __init__(self, kind, x, d):
        self.kind, self.x, self.d = kind, x, d
        self._value = None

    @property
    def value(self):
        """the number the numeral denotes; a symbolic digit count is enumerated (by forks) only when the value is needed"""
        if self._value is None:
            if isinstance(self.d, SymInt):
                self.d = self.d.__index__()
            e = _toreal(self.x.e)
            self._value = SymReal(z3.simplify(truncate(e, self.d) if self.kind == "trunc" else round_half_even(e, self.d)))
        return self._value

    def __symfloat__(self):
        return self.value

    def __str__(self):
        return str(self.value)

    def __contains__(self, item):
        return item == "."

    def split(self, sep=None, maxsplit=-1):
        """a positional numeral split at its point: cutting its fraction to fewer digits truncates the number it denotes"""
        if sep != "." or self.d is None or isinstance(self.d, SymInt):
            raise Unsupported("split of a formatted number")
        return [_IntPart(self.value), _FracOfNumeral(self)]

    def strip(self):
        return self

    def __eq__(self, other):
        if isinstance(other, str):
            return False
        return NotImplemented

    __hash__ = None


class _FracOfNumeral:
    def __init__(self, num):
        self.num, self.x = num, num.value

    def __getitem__(self, sl):
        if not isinstance(sl, slice) or sl.start not in (None, 0) or sl.step not in (None, 1):
            raise Unsupported("fraction digits indexed other than [:d]")
        d = sl.stop
        if isinstance(d, SymInt):
            d = d.__index__()
        return _FracTrunc(self.x, min(d, self.num.d))


class SymPosText(SymNumText):
    """np.format_float_positional(x, trim='0'): positional notation, full precision (denotes x exactly)"""

    def __init__(self, x):
        self.kind, self.x, self.d = "exact", x, None
        self._value = x


class SymBoolText:
    def __init__(self, b, lowered=False):
        self.b, self.lowered = b, lowered

    def lower(self):
        return SymBoolText(self.b, True)

    def __eq__(self, other):
        if isinstance(other, str):
            t, f = ("true", "false") if self.lowered else ("True", "False")
            if other == t:
                return self.b
            if other == f:
                return ~self.b
            return False
        if isinstance(other, SymBoolText):
            return self.b == other.b
        return NotImplemented

    def __ne__(self, other):
        r = self.__eq__(other)
        return (~r) if isinstance(r, SymBool) else (not r)

    __hash__ = None

    def __str__(self):
        return str(self.b)


def sym_str(x="", *a):
    if isinstance(x, SymReal):
        return SymDec(x)
    if isinstance(x, SymBool):
        return SymBoolText(x)
    if isinstance(x, (SymDec, SymNumText, SymBoolText)):
        return x
    return str(x, *a)


def format_float_positional(x, precision=None, unique=True, fractional=True, trim="k", *a, **k):
    import numpy as np

    if isinstance(x, (SymReal, SymInt)):
        if a or k or not unique or not fractional:
            raise Unsupported("format_float_positional with options beyond precision / trim")
        if precision is not None:
            # at most `precision` fraction digits, rounded (ties as numpy resolves them are outside the model: a
            # counterexample is confirmed by the concrete replay)
            return SymNumText("round", SymReal(_toreal(x.e)), precision)
        return SymPosText(SymReal(_toreal(x.e)))
    if precision is not None:
        k["precision"] = precision
    k.update(unique=unique, fractional=fractional, trim=trim)
    return np.format_float_positional(x, *a, **k)


def sym_format(value, spec=""):
    if isinstance(value, (SymReal, SymInt)) and spec == "f":
        return SymNumText("round", SymReal(_toreal(value.e)), 6)
    if isinstance(value, (SymReal, SymInt)) and spec.startswith(".") and spec.endswith("f"):
        from . import strs

        d = strs.single_token(spec[1:-1])
        d = int(spec[1:-1]) if d is None else d
        return SymNumText("round", SymReal(_toreal(value.e)), d)
    if isinstance(value, Sym):
        raise Unsupported(f"format(symbolic, {spec!r})")
    return format(value, spec)

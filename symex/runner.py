"""Scheduling of obligations, replay of counterexamples, evidence and findings (DESIGN.md 1.7, 1.9)."""
import importlib
import json
import multiprocessing as mp
import os
import re
import sys
import time
import traceback

ROOT = os.path.dirname(os.path.dirname(os.path.abspath(__file__)))
HARNESS_ERROR = 3

TIER_CFG = {
    "quick": dict(timeout_ms=40000, max_paths=3000, deadline_s=420, models_per_label=4),
    "thorough": dict(timeout_ms=120000, max_paths=60000, deadline_s=1500, models_per_label=8),
}


def _load(prop):
    from . import api

    mod = importlib.import_module(f"harness.{prop.lower()}")
    return mod, api.OBLIGATIONS.get(prop, [])


def _exc_label(e):
    from .core import innermost_repo_frame

    w = innermost_repo_frame(e.__traceback__)
    return f"exception:{type(e).__name__}@{w[0] if w else 'harness'}", (w[1] if w else "") + " :: " + repr(e)[:300]


# ---------------------------------------------------------------------------------------------
# worker side
# ---------------------------------------------------------------------------------------------
def _symbolic_worker(args):
    prop, name, tier, seed, mutant = args
    t0 = time.time()
    out = dict(name=name, mode="symbolic")
    try:
        sys.setrecursionlimit(20000)
        from . import api, core, shims

        mod, obs = _load(prop)
        ob = [o for o in obs if o.name == name][0]
        cfg = TIER_CFG[tier]
        if mutant is not None:
            from . import mutants

            mutants.apply(mod.MUTANTS[mutant])
        shims.install()
        if hasattr(mod, "install_shims"):
            mod.install_shims()
        labels = {}  # label -> dict(ok, fail, unknown, models[], detail)
        reached = set()
        path_samples = []

        def run_path(c):
            V = api.SymV(c)
            try:
                ob.fn(V)
            except Exception as e:  # noqa: BLE001 - an exception of the code under test on a feasible path
                lab, detail = _exc_label(e)
                if os.environ.get("VERIF_DEBUG"):
                    traceback.print_exc()
                V.fail(lab, detail)
            reached.update(V.reached)
            if len(path_samples) < 3:
                import z3

                if c.check() == z3.sat:
                    path_samples.append({k: _js(v) for k, v in c.model_values(c.get_model()).items()})
            return V.claims

        max_paths = ob.max_paths.get(tier) if isinstance(ob.max_paths, dict) else (ob.max_paths or cfg["max_paths"])
        results, stats = core.explore(run_path, max_paths=max_paths or cfg["max_paths"], timeout_ms=cfg["timeout_ms"],
                                      deadline=t0 + cfg["deadline_s"])
        kinds = {}
        notes = []
        for r in results:
            kinds[r.kind] = kinds.get(r.kind, 0) + 1
            if r.kind in ("unsupported", "budget", "unknown") and len(notes) < 5:
                notes.append(f"{r.kind}: {r.info}")
            for cl in r.claims or []:
                L = labels.setdefault(cl.label, dict(ok=0, fail=0, unknown=0, models=[], detail=None))
                L[cl.status] += 1
                if cl.status == "fail":
                    if len(L["models"]) < cfg["models_per_label"]:
                        L["models"].append({k: _js(v) for k, v in (cl.values or {}).items()})
                    if cl.detail and not L["detail"]:
                        L["detail"] = cl.detail
                if cl.status == "unknown" and cl.detail and not L["detail"]:
                    L["detail"] = "unknown: " + str(cl.detail)
        out.update(labels=labels, stats=stats, kinds=kinds, notes=notes, reached=sorted(reached),
                   path_samples=path_samples, shims=list(shims.INSTALLED), wall_s=time.time() - t0)
    except BaseException as e:  # noqa: BLE001
        out.update(error="".join(traceback.format_exception(type(e), e, e.__traceback__))[-3000:], wall_s=time.time() - t0)
    return out


def _concrete_worker(args):
    """run the harness concretely (no shims, real libraries) on the given input values"""
    prop, name, values, mutant = args
    out = dict(name=name, mode="concrete")
    try:
        from . import api

        mod, obs = _load(prop)
        if mutant is not None:
            from . import mutants

            mutants.apply(mod.MUTANTS[mutant])
        ob = [o for o in obs if o.name == name][0]
        vals = {k: _unjs(v) for k, v in values.items()}
        V = api.ConcV(vals)
        try:
            ob.fn(V)
        except api.ReplayMismatch as e:
            out["mismatch"] = str(e)
        except Exception as e:  # noqa: BLE001
            lab, detail = _exc_label(e)
            V.fail(lab, detail)
        out["failed"] = sorted({c.label for c in V.claims if c.status == "fail"})
        out["details"] = {c.label: c.detail for c in V.claims if c.status == "fail" and c.detail}
        out["ok"] = sorted({c.label for c in V.claims if c.status == "ok"})
    except BaseException as e:  # noqa: BLE001
        out["error"] = "".join(traceback.format_exception(type(e), e, e.__traceback__))[-3000:]
    return out


def _js(v):
    from fractions import Fraction

    if isinstance(v, Fraction):
        return {"q": f"{v.numerator}/{v.denominator}", "f": float(v)}
    return v


def _unjs(v):
    from fractions import Fraction

    if isinstance(v, dict) and "q" in v:
        return float(Fraction(v["q"]))
    return v


# ---------------------------------------------------------------------------------------------
# findings
# ---------------------------------------------------------------------------------------------
def load_findings():
    p = os.path.join(ROOT, "known_findings.json")
    if not os.path.exists(p):
        return []
    return json.load(open(p))["findings"]


def _match_finding(findings, prop, sig):
    for f in findings:
        if f.get("property") == prop and f.get("status") == "open" and re.fullmatch(f["signature"], sig):
            return f
    return None


# ---------------------------------------------------------------------------------------------
# driver
# ---------------------------------------------------------------------------------------------
def run_selftest(prop, tier="quick", only=None, verbose=False):
    """every seeded in-memory defect of the harness module must be reported as a violation"""
    sys.path.insert(0, ROOT)
    mod, obs = _load(prop)
    muts = getattr(mod, "MUTANTS", [])
    res = []
    for i, m in enumerate(muts):
        if only and only not in m["name"]:
            continue
        rc, summ = run_check(prop, m.get("tier", "quick"), m.get("only"), False, 0, mutant=i, quiet=True)
        killed = rc == 1
        res.append(dict(name=m["name"], killed=killed, rc=rc, violations=summ.get("violations", [])[:3],
                        problems=summ.get("problems", [])[:3]))
        print(f"mutant {m['name']}: {'killed' if killed else 'SURVIVED rc=%d' % rc} "
              f"{[v['signature'] for v in summ.get('violations', [])][:2]}")
        if verbose and not killed:
            print(summ)
    return res


def _child(func, job, conn):
    try:
        conn.send(func(job))
    except BaseException as e:  # noqa: BLE001
        try:
            conn.send(dict(error="".join(traceback.format_exception(type(e), e, e.__traceback__))[-3000:]))
        except Exception:  # noqa: BLE001
            pass
    finally:
        conn.close()


def _run_parallel(func, jobs, nproc, hard_timeout):
    """one forked process per job, at most nproc at a time; a worker that has not answered after hard_timeout seconds (a solver
    call that ignores its own timeout) is killed and reported as an error, never as success"""
    ctxm = mp.get_context("fork")
    results = [None] * len(jobs)
    pending = list(enumerate(jobs))
    running = {}
    while pending or running:
        while pending and len(running) < nproc:
            i, job = pending.pop(0)
            parent, child = ctxm.Pipe(duplex=False)
            p = ctxm.Process(target=_child, args=(func, job, child))
            p.start()
            child.close()
            running[i] = (p, parent, time.time())
        progressed = False
        for i, (p, conn, t0) in list(running.items()):
            if conn.poll(0):
                try:
                    results[i] = conn.recv()
                except (EOFError, OSError):
                    results[i] = dict(error="worker died while sending its result")
                p.join(10)
                del running[i]
                progressed = True
            elif not p.is_alive():
                results[i] = dict(error=f"worker died without a result (exit code {p.exitcode})")
                del running[i]
                progressed = True
            elif time.time() - t0 > hard_timeout:
                p.kill()
                p.join(10)
                results[i] = dict(error=f"worker killed after the hard timeout of {hard_timeout} s (a solver call did not return)")
                del running[i]
                progressed = True
        if not progressed:
            time.sleep(0.05)
    return results


def run_check(prop, tier="quick", only=None, verbose=False, seed=0, mutant=None, quiet=False):
    t0 = time.time()
    if ROOT not in sys.path:
        sys.path.insert(0, ROOT)
    mod, obs = _load(prop)
    obs = [o for o in obs if (tier == "thorough" or o.tier == "quick") and (not only or only in o.name)]
    if not obs:
        print(f"no obligations for {prop}")
        return HARNESS_ERROR, {}
    if seed:
        import random

        random.Random(seed).shuffle(obs)
    nproc = min(16, len(obs), os.cpu_count() or 4)
    sym = _run_parallel(_symbolic_worker, [(prop, o.name, tier, seed, mutant) for o in obs], nproc, TIER_CFG[tier]["deadline_s"] + 90)
    # replay every candidate on the unshimmed library
    replay_jobs = []
    for o, r in zip(obs, sym):
        for lab, L in (r.get("labels") or {}).items():
            for m in L["models"]:
                replay_jobs.append((o.name, lab, m))
        for m in (r.get("path_samples") or []):
            replay_jobs.append((o.name, None, m))
    conc = _run_parallel(_concrete_worker, [(prop, n, m, mutant) for n, lab, m in replay_jobs], min(16, os.cpu_count() or 4), 300) if replay_jobs else []

    findings = load_findings() if mutant is None else []
    violations, known, problems, mismatches = [], [], [], []
    per_ob = []
    tot = dict(paths=0, queries=0, solver_s=0.0, claims_ok=0, claims_fail=0, replays=0, validations=0)
    by_name = {o.name: o for o in obs}
    replay_res = {}
    for (n, lab, m), cr in zip(replay_jobs, conc):
        replay_res.setdefault((n, lab), []).append((m, cr))
    for o, r in zip(obs, sym):
        rec = dict(obligation=o.oid, bounds=o.bounds, functions=o.functions, outside_claim=o.outside, note=o.note)
        if "error" in r:
            problems.append(f"{o.oid}: harness crashed: {r['error'][-600:]}")
            rec["verdict"] = "ERROR"
            per_ob.append(rec)
            continue
        st = r["stats"]
        tot["paths"] += st["paths"]
        tot["queries"] += st["queries"]
        tot["solver_s"] += st["solver_s"]
        verdict = "HOLDS"
        inconclusive = []
        if not st["exhausted"]:
            inconclusive.append("path budget / deadline hit")
        for k in ("unsupported", "budget", "unknown"):
            if r["kinds"].get(k):
                inconclusive.append(f"{r['kinds'][k]} {k} paths ({'; '.join(r['notes'][:2])})")
        if not r["reached"]:
            inconclusive.append("vacuous: no claim reached on a feasible path")
        missing = [x for x in getattr(mod, "EXPECT_LABELS", {}).get(o.name, []) if x not in r["reached"]]
        if missing:
            inconclusive.append(f"vacuous: labels never reached: {missing}")
        lab_summ = {}
        for lab, L in r["labels"].items():
            tot["claims_ok"] += L["ok"]
            tot["claims_fail"] += L["fail"]
            lab_summ[lab] = {k: L[k] for k in ("ok", "fail", "unknown")}
            if L["unknown"]:
                inconclusive.append(f"solver unknown on claim {lab} ({L['detail']})")
            if L["fail"]:
                reproduced = None
                for m, cr in replay_res.get((o.name, lab), []):
                    tot["replays"] += 1
                    if "error" in cr:
                        problems.append(f"{o.oid}: concrete replay crashed: {cr['error'][-400:]}")
                        continue
                    if lab in cr.get("failed", []):
                        reproduced = (m, cr)
                        break
                sig = f"{o.oid}:{lab}"
                if reproduced:
                    m, cr = reproduced
                    path = _write_replay(prop, o, lab, m, L.get("detail") or cr.get("details", {}).get(lab)) if not quiet else ""
                    f = _match_finding(findings, prop, sig)
                    item = dict(signature=sig, replay=path, detail=(L.get("detail") or "")[:300], model=m)
                    if f:
                        known.append((f, item))
                        verdict = "KNOWN-FINDING" if verdict == "HOLDS" else verdict
                    else:
                        violations.append(item)
                        verdict = "VIOLATION"
                else:
                    inconclusive.append(
                        f"candidate for {lab} did not reproduce on the real code in {len(replay_res.get((o.name, lab), []))} "
                        f"replays (spurious model of a stub / the real-number idealisation)")
        # differential validation of ok-path samples: concrete run must not fail any claim
        for m, cr in replay_res.get((o.name, None), []):
            tot["validations"] += 1
            if cr.get("failed"):
                bad = [x for x in cr["failed"] if r["labels"].get(x, {}).get("fail", 0) == 0]
                if bad:
                    mismatches.append(f"{o.oid}: concrete run fails {bad} on a path sample {m} that the encoding accepts")
        if inconclusive and verdict == "HOLDS":
            verdict = "INCONCLUSIVE"
        if inconclusive:
            problems.extend(f"{o.oid}: {x}" for x in inconclusive)
        rec.update(verdict=verdict, paths=st["paths"], queries=st["queries"], solver_s=round(st["solver_s"], 3),
                   path_kinds=r["kinds"], claims=lab_summ, exhausted=st["exhausted"], wall_s=round(r["wall_s"], 2),
                   sample_inputs=r["path_samples"][:2])
        per_ob.append(rec)
        if verbose:
            print(json.dumps(rec, indent=1, default=str))

    wall = time.time() - t0
    shim_list = next((r.get("shims") for r in sym if r.get("shims")), [])
    if quiet:
        rc = 1 if violations else (HARNESS_ERROR if problems else 0)
        return rc, dict(violations=violations, problems=problems, known=known)
    selftest = None
    if tier == "thorough" and getattr(mod, "MUTANTS", None) and not only:
        selftest = run_selftest(prop)
        for r in selftest:
            if not r["killed"]:
                problems.append(f"self-test: seeded defect {r['name']} was not reported (rc={r['rc']})")
    _write_evidence(prop + (".partial" if only else ""), tier, seed, per_ob, tot, wall, violations, known, problems, mismatches, shim_list, mod, selftest)
    for f, item in known:
        print(f"KNOWN-FINDING: property={prop} {f['what']} [{item['signature']}]")
    for mm in mismatches:
        print("VALIDATION-MISMATCH:", mm)
    for item in violations:
        print(f"VIOLATION property={prop} replay={item['replay']}")
        print(f"  signature={item['signature']} detail={item['detail']}")
    nh = sum(1 for r in per_ob if r.get("verdict") == "HOLDS")
    print(f"{prop} {tier}: {len(per_ob)} obligations, {nh} hold, {len(known)} known findings, {len(violations)} violations, "
          f"{tot['paths']} paths, {tot['queries']} solver queries, solver {tot['solver_s']:.1f}s, wall {wall:.1f}s")
    if violations:
        return 1, {}
    if problems:
        for p in problems:
            print("HARNESS-PROBLEM:", p)
        return HARNESS_ERROR, {}
    return 0, {}


def _write_replay(prop, o, lab, model, detail):
    d = os.path.join(ROOT, "replays", prop)
    os.makedirs(d, exist_ok=True)
    fn = re.sub(r"[^A-Za-z0-9_.-]+", "_", f"{o.name}__{lab}")[:150] + ".json"
    p = os.path.join(d, fn)
    json.dump(dict(property=prop, obligation=o.name, label=lab, values=model, detail=detail,
                   how=f"./check {prop} --replay {p}"), open(p, "w"), indent=1)
    return p


def run_replay(prop, path):
    sys.path.insert(0, ROOT)
    rp = json.load(open(path))
    _load(prop)
    r = _concrete_worker((prop, rp["obligation"], rp["values"], None))
    print(json.dumps(r, indent=1))
    if rp["label"] in r.get("failed", []):
        print(f"REPRODUCED {rp['label']} on the real code")
        return 1
    print("not reproduced")
    return 0


def _write_evidence(prop, tier, seed, per_ob, tot, wall, violations, known, problems, mismatches, shim_list, mod, selftest=None):
    os.makedirs(os.path.join(ROOT, "evidence"), exist_ok=True)
    samples = []
    for r in per_ob[:40]:
        samples.append({k: r.get(k) for k in ("obligation", "verdict", "bounds", "paths", "queries", "claims", "sample_inputs")})
    ev = dict(
        property_id=prop.split(".")[0],
        tier=tier,
        seed=int(seed),
        level="model_checking",
        coverage=dict(
            states=max(1, tot["paths"]),
            transitions=max(1, tot["queries"]),
            traces_validated_against_impl=tot["replays"] + tot["validations"],
            samples=samples,
            exhaustive=all(r.get("exhausted") for r in per_ob),
            explanation="bounded symbolic execution of the real /repo code with z3: states = execution paths explored, "
                        "transitions = solver queries; every claim is discharged by unsat of its negation under the path "
                        "condition; candidates are replayed on the unshimmed library",
            obligations=len(per_ob),
            discharged=sum(1 for r in per_ob if r.get("verdict") == "HOLDS"),
            claims_proved=tot["claims_ok"],
            claims_refuted=tot["claims_fail"],
            solver_seconds=round(tot["solver_s"], 2),
            solver="z3 %s" % _z3v(),
            functions_encoded=sorted({f for r in per_ob for f in (r.get("functions") or [])}),
            per_obligation=per_ob,
            known_findings=[dict(signature=i["signature"], what=f["what"]) for f, i in known],
            inconclusive=problems,
            validation_mismatches=mismatches,
            stubs_and_shims=shim_list + list(getattr(mod, "STUBS", [])),
            clauses_outside_claim=list(getattr(mod, "OUTSIDE", [])),
            seeded_defect_selftest=selftest,
        ),
        assumptions=["Python float modelled as mathematical real (IEEE rounding outside the claim)",
                     "Python int modelled as mathematical integer"] + list(getattr(mod, "ASSUMPTIONS", [])),
        wall_s=round(wall, 2),
        violations=len(violations),
    )
    json.dump(ev, open(os.path.join(ROOT, "evidence", f"{prop}.json"), "w"), indent=1, default=str)


def _z3v():
    import z3

    return z3.get_version_string()

"""numpy stand-in installed as module global ``np`` / ``npy`` in code under test.

Everything is forwarded to the real numpy; only constructors / functions that would force a
machine dtype on symbolic scalars (or that inspect values in C) are overridden.  Arrays that hold
proxies are ``dtype=object`` views of class ``SymArray``.
"""
import numpy as _np
import z3

from . import symmath
from .core import Sym, SymBool, SymInt, SymReal, Unsupported, lift, _toreal, round_half_even


class SymArray(_np.ndarray):
    """object array holding proxies; propagates through numpy operations as a subclass"""

    def astype(self, dtype, *a, **k):
        dtype = _dt(dtype)
        if _holds_sym(self) and dtype in (float, _np.float64, "float", "float64", _np.double, int, _np.int64):
            return self
        return _np.asarray(self).astype(dtype, *a, **k)

    def tolist(self):
        return _np.asarray(self).tolist()

    def round(self, decimals=0, out=None):
        return around(self, decimals)

    def __deepcopy__(self, memo):
        return _np.array(_np.asarray(self), dtype=object, copy=True).view(SymArray)


def _holds_sym(a):
    if isinstance(a, Sym):
        return True
    if isinstance(a, _np.ndarray):
        if a.dtype != object:
            return False
        return any(isinstance(x, Sym) for x in a.flat)
    if isinstance(a, (list, tuple)):
        return any(_holds_sym(x) for x in a)
    return False


def _view(a):
    if isinstance(a, _np.ndarray) and a.dtype == object and not isinstance(a, SymArray):
        return a.view(SymArray)
    return a


def _dt(dtype):
    if dtype is float64 or dtype is double or getattr(dtype, "__name__", "") == "sym_float":
        return _np.float64
    if getattr(dtype, "__name__", "") == "sym_int":
        return _np.int64
    return dtype


def array(obj, dtype=None, *a, **k):
    dtype = _dt(dtype)
    if _holds_sym(obj):
        if dtype not in (None, object, float, _np.float64, int, _np.int64, _np.double):
            raise Unsupported(f"np.array of symbolic data with dtype {dtype}")
        return _np.array(obj, dtype=object, *a, **k).view(SymArray)
    return _np.array(obj, dtype, *a, **k)


def asarray(obj, dtype=None, *a, **k):
    dtype = _dt(dtype)
    if _holds_sym(obj):
        return _np.asarray(obj, dtype=object).view(SymArray)
    return _np.asarray(obj, dtype, *a, **k)


def float64(x=0.0):
    if isinstance(x, SymInt):
        return SymReal(z3.ToReal(x.e))
    if isinstance(x, Sym):
        return x
    return _np.float64(x)


double = float64


def _round_scalar(x, n):
    if isinstance(x, SymInt):
        return x
    if isinstance(x, SymReal):
        return SymReal(round_half_even(x.e, int(n)))
    return _np.around(x, n)


def around(a, decimals=0, out=None):
    if _holds_sym(a):
        if isinstance(a, Sym):
            return _round_scalar(a, decimals)
        arr = _np.asarray(a, dtype=object)
        res = _np.empty(arr.shape, dtype=object)
        for idx in _np.ndindex(arr.shape):
            res[idx] = _round_scalar(arr[idx], decimals)
        return res.view(SymArray)
    if isinstance(a, _np.ndarray) and a.dtype == object:
        a = _np.asarray(a).astype(_np.float64)
    return _np.around(a, decimals, out)


round = around
round_ = around


def isclose(a, b, rtol=1e-05, atol=1e-08, equal_nan=False):
    if _holds_sym(a) or _holds_sym(b):
        aa, bb = _np.broadcast_arrays(_np.asarray(a, dtype=object), _np.asarray(b, dtype=object))
        res = _np.empty(aa.shape, dtype=object)
        for idx in _np.ndindex(aa.shape):
            x, y = _toreal(lift(aa[idx])), _toreal(lift(bb[idx]))
            ab = lambda t: z3.If(t >= 0, t, -t)
            res[idx] = SymBool(ab(x - y) <= lift(float(atol)) + lift(float(rtol)) * ab(y))
        if res.shape == ():
            return res[()]
        return res.view(SymArray)
    return _np.isclose(a, b, rtol, atol, equal_nan)


def allclose(a, b, rtol=1e-05, atol=1e-08, equal_nan=False):
    if _holds_sym(a) or _holds_sym(b):
        r = isclose(a, b, rtol, atol)
        if isinstance(r, Sym):
            return bool(r)
        return all(bool(x) for x in r.flat)
    return _np.allclose(a, b, rtol, atol, equal_nan)


def array_equal(a, b, equal_nan=False):
    if _holds_sym(a) or _holds_sym(b):
        aa, bb = _np.asarray(a, dtype=object), _np.asarray(b, dtype=object)
        if aa.shape != bb.shape:
            return False
        return all(bool(x == y) for x, y in zip(aa.flat, bb.flat))
    return _np.array_equal(a, b, equal_nan)


def arctan2(y, x):
    if isinstance(y, Sym) or isinstance(x, Sym):
        return symmath.atan2(y, x)
    return _np.arctan2(y, x)


def arctan(x):
    if isinstance(x, Sym):
        return symmath.atan(x)
    return _np.arctan(x)


def sin(x):
    if isinstance(x, Sym):
        return symmath.sin(x)
    return _np.sin(x)


def cos(x):
    if isinstance(x, Sym):
        return symmath.cos(x)
    return _np.cos(x)


def sqrt(x):
    if isinstance(x, Sym):
        return symmath.sqrt(x)
    return _np.sqrt(x)


def hypot(x, y):
    if isinstance(x, Sym) or isinstance(y, Sym):
        return symmath.hypot(x, y)
    return _np.hypot(x, y)


def isnan(x):
    if _holds_sym(x):
        if isinstance(x, Sym):
            return False
        return _np.zeros(_np.asarray(x, dtype=object).shape, dtype=bool)
    return _np.isnan(x)


def isfinite(x):
    if _holds_sym(x):
        if isinstance(x, Sym):
            return True
        return _np.ones(_np.asarray(x, dtype=object).shape, dtype=bool)
    return _np.isfinite(x)


def _reduce_minmax(a, axis, is_min):
    arr = _np.asarray(a, dtype=object)

    def red(vals):
        vals = list(vals)
        if not any(isinstance(v, Sym) for v in vals):
            return min(vals) if is_min else max(vals)
        m = _toreal(lift(vals[0]))
        for v in vals[1:]:
            e = _toreal(lift(v))
            m = z3.If(e < m, e, m) if is_min else z3.If(e > m, e, m)
        return SymReal(z3.simplify(m))

    if axis is None:
        return red(arr.flat)
    moved = _np.moveaxis(arr, axis, 0)
    out = _np.empty(moved.shape[1:], dtype=object)
    for idx in _np.ndindex(out.shape):
        out[idx] = red(moved[(slice(None),) + idx])
    return out.view(SymArray) if out.shape else out[()]


def min(a, axis=None, *args, **kw):  # noqa: A001
    if _holds_sym(a) and not args and not kw:
        return _reduce_minmax(a, axis, True)
    return _np.min(a, axis, *args, **kw)


def max(a, axis=None, *args, **kw):  # noqa: A001
    if _holds_sym(a) and not args and not kw:
        return _reduce_minmax(a, axis, False)
    return _np.max(a, axis, *args, **kw)


amin = min
amax = max


def _pairwise(a, b, is_min):
    if isinstance(a, Sym) or isinstance(b, Sym):
        x, y = _toreal(lift(a)), _toreal(lift(b))
        return SymReal(z3.simplify(z3.If(y < x, y, x) if is_min else z3.If(y > x, y, x)))
    if _holds_sym(a) or _holds_sym(b):
        aa, bb = _np.broadcast_arrays(_np.asarray(a, dtype=object), _np.asarray(b, dtype=object))
        out = _np.empty(aa.shape, dtype=object)
        for idx in _np.ndindex(aa.shape):
            out[idx] = _pairwise(aa[idx], bb[idx], is_min)
        return out.view(SymArray)
    return (_np.minimum if is_min else _np.maximum)(a, b)


def hypot(a, b, *args, **kw):
    """element-wise sqrt(a^2 + b^2) (shared sqrt encoding)"""
    if args or kw or not (_holds_sym(a) or _holds_sym(b) or isinstance(a, Sym) or isinstance(b, Sym)):
        return _np.hypot(a, b, *args, **kw)
    from .core import _sqrt

    if isinstance(a, _np.ndarray) or isinstance(b, _np.ndarray):
        aa, bb = _np.broadcast_arrays(_np.asarray(a, dtype=object), _np.asarray(b, dtype=object))
        out = _np.empty(aa.shape, dtype=object)
        for idx in _np.ndindex(aa.shape):
            out[idx] = hypot(aa[idx], bb[idx])
        return out.view(SymArray)
    x, y = _toreal(lift(a)), _toreal(lift(b))
    return _sqrt(SymReal(x * x + y * y))


def maximum(a, b, *args, **kw):
    """element-wise maximum as an If-term (no fork)"""
    if args or kw:
        return _np.maximum(a, b, *args, **kw)
    return _pairwise(a, b, False)


def minimum(a, b, *args, **kw):
    if args or kw:
        return _np.minimum(a, b, *args, **kw)
    return _pairwise(a, b, True)


def empty(shape, dtype=None, *a, **k):
    """np.empty(...) of the default dtype is an object array here, so that symbolic scalars can be stored into it"""
    if dtype in (None, float, _np.float64) or dtype is float64:
        arr = _np.empty(shape, dtype=object)
        arr.fill(0.0)
        return arr.view(SymArray)
    return _np.empty(shape, dtype, *a, **k)


def format_float_positional(x, *a, **k):
    from . import fmt

    return fmt.format_float_positional(x, *a, **k)


def issubdtype(a, b):
    if a is SymInt:
        return b in (_np.integer, int, _np.signedinteger, _np.number)
    if a is SymReal:
        return b in (_np.floating, float, _np.number)
    return _np.issubdtype(a, b)


class _ArrayKey:
    """stand-in for the *string* numpy would print: equal keys <=> equal rounded contents
    (idealised injective formatting, see DESIGN.md C12)"""

    def __init__(self, arr):
        self.arr = _np.asarray(arr, dtype=object)

    def __eq__(self, other):
        if not isinstance(other, _ArrayKey):
            return NotImplemented
        if self.arr.shape != other.arr.shape:
            return False
        return all(bool(x == y) for x, y in zip(self.arr.flat, other.arr.flat))

    def __ne__(self, other):
        r = self.__eq__(other)
        return r if r is NotImplemented else not r

    def __hash__(self):
        raise Unsupported("hash of a symbolic array string outside the hash shim")

    def structural_key(self):
        return ("arr", self.arr.shape, tuple(self.arr.flat))


def array2string(a, *args, **kw):
    if _holds_sym(a):
        return _ArrayKey(a)
    return _np.array2string(a, *args, **kw)


class _NPX:
    """module-like object"""

    def __init__(self):
        self._over = {}

    def __getattr__(self, name):
        return getattr(_np, name)


npx = _NPX()
for _n, _f in list(globals().items()):
    if _n.startswith("_") or _n in ("z3", "symmath", "Sym", "SymBool", "SymInt", "SymReal", "Unsupported", "lift",
                                    "round_half_even", "SymArray", "npx"):
        continue
    if callable(_f):
        setattr(npx, _n, _f)

"""Message passthrough for protobuf (DESIGN.md 1.4, C02): pure-Python message objects generated at run time from the
DESCRIPTORs of the repository's own ``*_pb2`` modules.  They follow the proto2 Python API the writer and reader use
(field access with defaults, presence, oneof, repeated containers, CopyFrom, type checks of scalar assignments) but store
any object - in particular proxies - where the C++/upb implementation would demand a machine number.

The contract assumed about the real library is that SerializeToString / ParseFromString preserve every set field (doubles
bit-exactly, ints, bools, enums, strings, order of repeated fields, presence of optional fields).  ``compare_with_real``
validates the stub against the real implementation on concrete messages (used by the harness self-validation)."""
from google.protobuf.descriptor import FieldDescriptor as FD

from .core import Sym, SymBool, SymInt, SymReal, Unsupported

_INT_TYPES = {FD.TYPE_INT32: (-2**31, 2**31 - 1), FD.TYPE_SINT32: (-2**31, 2**31 - 1), FD.TYPE_SFIXED32: (-2**31, 2**31 - 1),
              FD.TYPE_INT64: (-2**63, 2**63 - 1), FD.TYPE_SINT64: (-2**63, 2**63 - 1), FD.TYPE_SFIXED64: (-2**63, 2**63 - 1),
              FD.TYPE_UINT32: (0, 2**32 - 1), FD.TYPE_FIXED32: (0, 2**32 - 1), FD.TYPE_UINT64: (0, 2**64 - 1), FD.TYPE_FIXED64: (0, 2**64 - 1)}
_FLOAT_TYPES = (FD.TYPE_DOUBLE, FD.TYPE_FLOAT)


def _is_repeated(f):
    return f.label == FD.LABEL_REPEATED


def _check_scalar(f, v):
    """mirrors the type checks of the real implementation; returns the stored value"""
    import numbers

    import numpy as np

    t = f.type
    if t in _FLOAT_TYPES:
        if isinstance(v, (SymReal, SymInt)):
            return v
        if isinstance(v, (bool, np.bool_)) or not isinstance(v, (numbers.Real, np.floating, np.integer)):
            if isinstance(v, (bool, np.bool_)):
                return float(v)
            raise TypeError(f"{v!r} has type {type(v).__name__}, but expected one of: int, float ({f.full_name})")
        return float(v)
    if t in _INT_TYPES:
        lo, hi = _INT_TYPES[t]
        if isinstance(v, SymInt):
            if v < lo or v > hi:
                raise ValueError(f"Value out of range: {f.full_name}")
            return v
        if isinstance(v, (SymReal, float, np.floating)):
            raise TypeError(f"{v!r} has type {type(v).__name__}, but expected one of: int ({f.full_name})")
        if isinstance(v, (bool, np.bool_)):
            return int(v)
        if not isinstance(v, (numbers.Integral, np.integer)):
            raise TypeError(f"{v!r} has type {type(v).__name__}, but expected one of: int ({f.full_name})")
        if not lo <= int(v) <= hi:
            raise ValueError(f"Value out of range: {v} ({f.full_name})")
        return int(v)
    if t == FD.TYPE_BOOL:
        if isinstance(v, SymBool):
            return v
        if isinstance(v, Sym) or not isinstance(v, (bool, np.bool_, numbers.Integral, np.integer)):
            raise TypeError(f"{v!r} has type {type(v).__name__}, but expected one of: bool, int ({f.full_name})")
        return bool(v)
    if t == FD.TYPE_ENUM:
        if isinstance(v, Sym) or isinstance(v, (bool, float)) or not isinstance(v, (numbers.Integral, np.integer)):
            raise TypeError(f"{v!r} has type {type(v).__name__}, but expected one of: int ({f.full_name})")
        if int(v) not in f.enum_type.values_by_number:
            raise ValueError(f"Unknown enum value: {v} ({f.full_name})")
        return int(v)
    if t == FD.TYPE_STRING:
        if not isinstance(v, str):
            raise TypeError(f"{v!r} has type {type(v).__name__}, but expected one of: bytes, unicode ({f.full_name})")
        return v
    if t == FD.TYPE_BYTES:
        if not isinstance(v, bytes):
            raise TypeError(f"{v!r} has type {type(v).__name__}, but expected one of: bytes ({f.full_name})")
        return v
    raise Unsupported(f"protobuf field type {t}")


class Repeated:
    def __init__(self, field, owner):
        self._f, self._owner, self._items = field, owner, []

    def _is_msg(self):
        return self._f.type == FD.TYPE_MESSAGE

    def _conv(self, v):
        if self._is_msg():
            if not isinstance(v, Message) or v._d.full_name != self._f.message_type.full_name:
                raise TypeError(f"Parameter to MergeFrom() must be instance of same class: expected {self._f.message_type.full_name}")
            c = Message(self._f.message_type)
            c.CopyFrom(v)
            return c
        return _check_scalar(self._f, v)

    def append(self, v):
        self._items.append(self._conv(v))
        self._owner._touch()

    def extend(self, vs):
        for v in vs:
            self.append(v)

    def add(self, **kw):
        if not self._is_msg():
            raise AttributeError("add")
        c = Message(self._f.message_type, **kw)
        self._items.append(c)
        self._owner._touch()
        return c

    def __iter__(self):
        return iter(list(self._items))

    def __len__(self):
        return len(self._items)

    def __getitem__(self, i):
        return self._items[i]

    def __bool__(self):
        return bool(self._items)

    def __eq__(self, o):
        return list(self) == list(o)

    def __repr__(self):
        return repr(self._items)


class Message:
    def __init__(self, desc, **kw):
        object.__setattr__(self, "_d", desc)
        object.__setattr__(self, "_vals", {})
        object.__setattr__(self, "_parent", None)
        for k, v in kw.items():
            f = desc.fields_by_name[k]
            if _is_repeated(f):
                getattr(self, k).extend(v)
            elif f.type == FD.TYPE_MESSAGE:
                getattr(self, k).CopyFrom(v)
            else:
                setattr(self, k, v)

    DESCRIPTOR = property(lambda self: self._d)

    def _touch(self):
        p = self._parent
        if p is not None:
            parent, name = p
            if name not in parent._vals:
                parent._set_present(name, self)
            parent._touch()

    def _set_present(self, name, value):
        f = self._d.fields_by_name[name]
        if f.containing_oneof is not None:
            for other in f.containing_oneof.fields:
                if other.name != name:
                    self._vals.pop(other.name, None)
        self._vals[name] = value

    def __getattr__(self, name):
        d = object.__getattribute__(self, "_d")
        f = d.fields_by_name.get(name)
        if f is None:
            raise AttributeError(f"{d.full_name} has no field {name}")
        vals = object.__getattribute__(self, "_vals")
        if name in vals:
            return vals[name]
        if _is_repeated(f):
            r = Repeated(f, self)
            vals[name] = r
            return r
        if f.type == FD.TYPE_MESSAGE:
            c = Message(f.message_type)  # default instance; becomes present when something is set in it
            object.__setattr__(c, "_parent", (self, name))
            return c
        return f.default_value

    def __setattr__(self, name, v):
        f = self._d.fields_by_name.get(name)
        if f is None:
            raise AttributeError(f"Assignment not allowed (no field \"{name}\" in protocol message object).")
        if _is_repeated(f):
            raise AttributeError(f"Assignment not allowed to repeated field \"{name}\" in protocol message object.")
        if f.type == FD.TYPE_MESSAGE:
            raise AttributeError(f"Assignment not allowed to composite field \"{name}\" in protocol message object.")
        self._set_present(name, _check_scalar(f, v))
        self._touch()

    def HasField(self, name):
        f = self._d.fields_by_name.get(name)
        if f is None:
            if name in self._d.oneofs_by_name:
                return self.WhichOneof(name) is not None
            raise ValueError(f"Protocol message {self._d.name} has no field {name}.")
        if _is_repeated(f):
            raise ValueError(f"Protocol message {self._d.name} has no singular \"{name}\" field.")
        return name in self._vals

    def WhichOneof(self, name):
        for f in self._d.oneofs_by_name[name].fields:
            if f.name in self._vals:
                return f.name
        return None

    def ClearField(self, name):
        self._vals.pop(name, None)

    def Clear(self):
        self._vals.clear()

    def CopyFrom(self, other):
        if other is self:
            return
        if not isinstance(other, Message) or other._d.full_name != self._d.full_name:
            raise TypeError(f"Parameter to CopyFrom() must be instance of same class: expected {self._d.full_name} got "
                            f"{getattr(getattr(other, '_d', None), 'full_name', type(other).__name__)}.")
        self._vals.clear()
        self.MergeFrom(other)
        self._touch()

    def MergeFrom(self, other):
        for name, v in other._vals.items():
            f = self._d.fields_by_name[name]
            if _is_repeated(f):
                getattr(self, name).extend(list(v))
            elif f.type == FD.TYPE_MESSAGE:
                c = Message(f.message_type)
                c.MergeFrom(v)
                object.__setattr__(c, "_parent", (self, name))
                self._set_present(name, c)
            else:
                self._set_present(name, v)

    def ListFields(self):
        out = []
        for f in self._d.fields:
            if f.name in self._vals:
                v = self._vals[f.name]
                if _is_repeated(f) and len(v) == 0:
                    continue
                out.append((f, v))
        return out

    def IsInitialized(self):
        return not self.missing_required()

    def missing_required(self, prefix=""):
        out = []
        for f in self._d.fields:
            if f.label == FD.LABEL_REQUIRED and f.name not in self._vals:
                out.append(prefix + f.name)
            if f.type == FD.TYPE_MESSAGE and f.name in self._vals:
                v = self._vals[f.name]
                for i, c in enumerate(v if _is_repeated(f) else [v]):
                    out += c.missing_required(f"{prefix}{f.name}{'[%d]' % i if _is_repeated(f) else ''}.")
        return out

    def SerializeToString(self):
        miss = self.missing_required()
        if miss:
            from google.protobuf.message import EncodeError

            raise EncodeError(f"Message {self._d.full_name} is missing required fields: {','.join(miss)}")
        return _Wire(self)

    def ParseFromString(self, data):
        if isinstance(data, _Wire):
            self.Clear()
            self.MergeFrom(data.msg)
            return
        raise Unsupported("parsing real protobuf bytes into a stub message")

    def __eq__(self, o):
        return isinstance(o, Message) and o._d.full_name == self._d.full_name and dump(self) == dump(o)

    __hash__ = None

    def __repr__(self):
        return f"<stub {self._d.full_name} {sorted(self._vals)}>"


class _Wire:
    """stands for the bytes of a serialised message (the serialiser's contract: parsing gives the same fields back)"""

    def __init__(self, msg):
        self.msg = Message(msg._d)
        self.msg.MergeFrom(msg)


class StubClass:
    """stands for a generated message class: calling it makes a stub message; enums and nested types come from the real class"""

    def __init__(self, real):
        self._real = real
        self.DESCRIPTOR = real.DESCRIPTOR

    def __call__(self, **kw):
        return Message(self._real.DESCRIPTOR, **kw)

    def __getattr__(self, name):
        v = getattr(self._real, name)
        if isinstance(v, type) and hasattr(v, "DESCRIPTOR") and hasattr(v, "SerializeToString"):
            return StubClass(v)
        return v

    def __instancecheck__(self, inst):
        return isinstance(inst, Message) and inst._d.full_name == self.DESCRIPTOR.full_name


class StubModule:
    def __init__(self, real_module):
        self._real = real_module

    def __getattr__(self, name):
        v = getattr(self._real, name)
        if isinstance(v, type) and hasattr(v, "DESCRIPTOR") and hasattr(v, "SerializeToString"):
            return StubClass(v)
        return v


def install(module):
    """replaces every ``*_pb2`` global of a library module by its stub"""
    n = 0
    for k, v in list(vars(module).items()):
        if k.endswith("_pb2") and hasattr(v, "DESCRIPTOR") and not isinstance(v, StubModule):
            setattr(module, k, StubModule(v))
            n += 1
    return n


# ---- plain-data views ------------------------------------------------------------------------------------------
def dump(m):
    """nested plain data of a stub or real message: {field: value | [values] | dict}; only present fields"""
    out = {}
    for f, v in m.ListFields():
        if f.label == FD.LABEL_REPEATED:
            out[f.name] = [dump(x) if f.type == FD.TYPE_MESSAGE else x for x in v]
        else:
            out[f.name] = dump(v) if f.type == FD.TYPE_MESSAGE else v
    return out


def to_real(m, real_cls):
    """the real message with the same fields (concrete values only)"""
    r = real_cls()
    _fill(r, m)
    return r


def _fill(r, m):
    for f, v in m.ListFields():
        if f.label == FD.LABEL_REPEATED:
            tgt = getattr(r, f.name)
            for x in v:
                if f.type == FD.TYPE_MESSAGE:
                    _fill(tgt.add(), x)
                else:
                    tgt.append(x)
        elif f.type == FD.TYPE_MESSAGE:
            sub = getattr(r, f.name)
            sub.SetInParent()
            _fill(sub, v)
        else:
            setattr(r, f.name, v)

"""Symbolic strings for the id / number-formatting properties (DESIGN.md 1.4, C13, C14, C03).

* ``SymStr`` wraps a z3 String term.  Like every proxy its ``__str__`` / ``__format__`` return a *placeholder token*
  (private-use characters), so that C-level string assembly (``"_".join``, f-strings, ``%``) moves it around untouched.
* ``decode(s)`` turns a concrete Python string containing tokens back into the z3 concatenation of its literal pieces and
  the terms behind the tokens.  Rendered integers are fresh z3 strings constrained by the decimal-numeral regex of their
  sign class (contract of ``str(int)``); ``int(token)`` returns the integer behind the token (contract ``int(str(n)) == n``).
* ``regex_to_z3`` translates a compiled Python pattern (via ``re._parser``) into a z3 regular expression.
* word equations go to cvc5 (``cvc5_word_equation_unsat``).
"""
import re
import re._parser as _rp  # noqa: PLC2701 - the parse tree of the *library's own* pattern is what gets translated

import z3

from .core import Sym, SymBool, SymInt, SymReal, Unsupported, ctx

TOK = re.compile("(\\d+)")
DIGITS_POS = z3.Concat(z3.Range("1", "9"), z3.Star(z3.Range("0", "9")))


class SymStr(Sym):
    __slots__ = ()

    def __eq__(self, o):
        if isinstance(o, SymStr):
            return SymBool(self.e == o.e)
        if isinstance(o, str):
            return SymBool(self.e == term_of(o))
        return False

    def __ne__(self, o):
        r = self.__eq__(o)
        return ~r if isinstance(r, SymBool) else not r

    __hash__ = Sym.__hash__

    def __add__(self, o):
        return SymStr(z3.Concat(self.e, term_of(o)))

    def __radd__(self, o):
        return SymStr(z3.Concat(term_of(o), self.e))

    def __len__(self):
        raise Unsupported("len() of a symbolic string")

    def __iter__(self):
        raise Unsupported("iteration over a symbolic string")


def _int_render(c, proxy):
    """z3 String that str(n) denotes, for a symbolic int n (memoised)"""
    memo = c.memo.setdefault("int_render", {})
    key = proxy.e.get_id()
    if key not in memo:
        s = z3.String(f"digits!{len(memo)}")
        n = proxy.e
        # decimal numeral of the sign class; the numeric link is the contract int(str(n)) == n (used by sym int())
        if c.decide(n >= 1):
            c.add(z3.InRe(s, DIGITS_POS))
        elif c.decide(n == 0):
            c.add(s == z3.StringVal("0"))
        else:
            c.add(z3.InRe(s, z3.Concat(z3.Re("-"), DIGITS_POS)))
        memo[key] = s
    return memo[key]


D = z3.Range("0", "9")
# what str()/repr() of a finite Python float looks like: positional  D+.D+  or exponent form  D(.D+)?e[+-]DD+
FLOAT_REPR_ABS = z3.Union(z3.Concat(z3.Plus(D), z3.Re("."), z3.Plus(D)),
                          z3.Concat(D, z3.Option(z3.Concat(z3.Re("."), z3.Plus(D))), z3.Re("e"), z3.Union(z3.Re("+"), z3.Re("-")), D, z3.Plus(D)))


def _float_render(c, proxy):
    """z3 String that str(x) / repr(x) denotes for a symbolic finite float x (memoised): constrained to the lexical shape
    of Python's float repr; its value is x by the contract float(repr(x)) == x (used by the float() shim)"""
    memo = c.memo.setdefault("float_render", {})
    key = proxy.e.get_id()
    if key not in memo:
        s = z3.String(f"floatrepr!{len(memo)}")
        c.add(z3.InRe(s, z3.Concat(z3.Option(z3.Re("-")), FLOAT_REPR_ABS)))
        memo[key] = s
    return memo[key]


def term_of(s):
    """z3 String term of a Python string that may contain placeholder tokens, of a SymStr or of a rendered proxy"""
    c = ctx()
    if isinstance(s, SymStr):
        return s.e
    if isinstance(s, SymInt):
        return _int_render(c, s)
    if isinstance(s, SymReal):
        return _float_render(c, s)
    if isinstance(s, Sym):
        raise Unsupported(f"string rendering of {type(s).__name__}")
    parts = []
    pos = 0
    for m in TOK.finditer(s):
        if m.start() > pos:
            parts.append(z3.StringVal(s[pos:m.start()]))
        proxy, spec = c.tokens[m.group(0)]
        if spec not in ("", "d"):
            raise Unsupported(f"format spec {spec!r} on a symbolic value")
        parts.append(term_of(proxy))
        pos = m.end()
    if pos < len(s):
        parts.append(z3.StringVal(s[pos:]))
    if not parts:
        return z3.StringVal("")
    return parts[0] if len(parts) == 1 else z3.Concat(*parts)


def pieces(s):
    """[(literal str | proxy)] of a Python string with tokens"""
    c = ctx()
    out = []
    pos = 0
    for m in TOK.finditer(s):
        if m.start() > pos:
            out.append(s[pos:m.start()])
        out.append(c.tokens[m.group(0)][0])
        pos = m.end()
    if pos < len(s):
        out.append(s[pos:])
    return out


def single_token(s):
    """the proxy if s consists of exactly one token, else None"""
    if isinstance(s, str):
        m = TOK.fullmatch(s)
        if m:
            return ctx().tokens[m.group(0)][0]
    return None


# ---- regular expressions ------------------------------------------------------------------------------
def _cls(items):
    parts = []
    for op, av in items:
        if op == _rp.LITERAL:
            parts.append(z3.Re(chr(av)))
        elif op == _rp.RANGE:
            parts.append(z3.Range(chr(av[0]), chr(av[1])))
        elif op == _rp.CATEGORY and str(av) == "CATEGORY_DIGIT":
            parts.append(z3.Range("0", "9"))
        else:
            raise Unsupported(f"regex class item {op} {av}")
    return parts[0] if len(parts) == 1 else z3.Union(*parts)


def _seq(tree):
    parts = [_node(op, av) for op, av in tree]
    if not parts:
        return z3.Re("")
    return parts[0] if len(parts) == 1 else z3.Concat(*parts)


def _node(op, av):
    if op == _rp.LITERAL:
        return z3.Re(chr(av))
    if op == _rp.IN:
        if av and av[0][0] == _rp.NEGATE:
            raise Unsupported("negated character class")
        return _cls(av)
    if op == _rp.SUBPATTERN:
        return _seq(av[3])
    if op == _rp.MAX_REPEAT or op == _rp.MIN_REPEAT:
        lo, hi, sub = av
        r = _seq(sub)
        if hi == _rp.MAXREPEAT:
            return z3.Star(r) if lo == 0 else z3.Plus(r) if lo == 1 else z3.Concat(z3.Loop(r, lo, lo), z3.Star(r))
        if (lo, hi) == (0, 1):
            return z3.Option(r)
        return z3.Loop(r, lo, hi)
    if op == _rp.BRANCH:
        return z3.Union(*[_seq(b) for b in av[1]])
    if op == _rp.ANY:
        return z3.AllChar(z3.ReSort(z3.StringSort()))
    if op == _rp.CATEGORY and str(av) == "CATEGORY_DIGIT":
        return z3.Range("0", "9")
    raise Unsupported(f"regex node {op}")


def regex_to_z3(pattern):
    """z3 regular expression of a Python pattern string (fullmatch semantics)"""
    return _seq(_rp.parse(pattern))


def group_names(pattern):
    return dict(re.compile(pattern).groupindex)


# ---- cvc5 for word equations ----------------------------------------------------------------------------
def cvc5_check(smt2, timeout_ms=60000):
    """'sat' / 'unsat' / 'unknown' for an SMT-LIB2 script (without check-sat) using the cvc5 Python wheel"""
    import cvc5

    slv = cvc5.Solver()
    slv.setOption("strings-exp", "true")
    slv.setOption("tlimit-per", str(timeout_ms))
    slv.setLogic("QF_SLIA")
    parser = cvc5.InputParser(slv)
    parser.setStringInput(cvc5.InputLanguage.SMT_LIB_2_6, smt2 + "\n(check-sat)\n", "q")
    sm = parser.getSymbolManager()
    res = "unknown"
    while True:
        cmd = parser.nextCommand()
        if cmd.isNull():
            break
        out = cmd.invoke(slv, sm)
        out = str(out).strip()
        if out in ("sat", "unsat", "unknown"):
            res = out
    return res

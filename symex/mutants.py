"""In-memory seeded defects (DESIGN.md 1.8): a function of the freshly imported /repo module gets its
code object replaced by one compiled from its own source with one textual replacement.  Applied only
inside forked worker processes of the self-test; /repo on disk is never touched."""
import inspect
import textwrap


def _resolve(path):
    """'commonroad.scenario.traffic_light:TrafficLightCycle.get_state_at_time_step' -> function object"""
    import importlib

    modname, qual = path.split(":")
    obj = importlib.import_module(modname)
    for part in qual.split("."):
        obj = obj.__dict__[part] if isinstance(obj, type) and part in obj.__dict__ else getattr(obj, part)
    if isinstance(obj, property):
        obj = obj.fget
    if isinstance(obj, (staticmethod, classmethod)):
        obj = obj.__func__
    if isinstance(obj, __import__("functools").cached_property):
        obj = obj.func
    return obj


def apply(spec):
    """spec = dict(target=..., old=..., new=...)"""
    f = _resolve(spec["target"])
    src = inspect.getsource(f)  # patterns are written with the indentation of the file
    for old, new in spec.get("edits") or [(spec["old"], spec["new"])]:
        if src.count(old) != 1:
            raise RuntimeError(f"mutant {spec.get('name')}: pattern occurs {src.count(old)} times in {spec['target']}")
        src = src.replace(old, new)
    src = textwrap.dedent(src)
    # strip decorators (property/staticmethod/...): we only need the code object
    lines = src.split("\n")
    while lines and lines[0].lstrip().startswith("@"):
        lines.pop(0)
    ns = {}
    body = "\n".join(lines)
    owner = f.__qualname__.split(".")[-2] if "." in f.__qualname__ and "<locals>" not in f.__qualname__ else None
    if owner is not None:
        # compile inside a class of the same name so that private names (self.__x) are mangled as in the original
        body = f"class {owner}:\n" + textwrap.indent(body, "    ")
    code = compile(body, f.__code__.co_filename, "exec")
    exec(code, f.__globals__, ns)
    newf = ns[owner].__dict__[f.__name__] if owner is not None else ns[f.__name__]
    if isinstance(newf, (staticmethod, classmethod)):
        newf = newf.__func__
    if newf.__code__.co_freevars != f.__code__.co_freevars:
        raise RuntimeError(f"mutant {spec.get('name')}: free variables differ (closure / super())")
    f.__code__ = newf.__code__
    if newf.__defaults__ is not None:
        f.__defaults__ = newf.__defaults__
    return f

"""Drop-in for the ``math`` module inside code under test: concrete arguments go to the real
``math``; symbolic arguments get the (sound, deliberately weak) theory described in DESIGN.md 1.4.

pi is the rational value of the double ``math.pi`` (so TWO_PI == 2*pi exactly as in the code).
"""
import math as _m
from fractions import Fraction

import z3

from .core import BudgetExceeded, Sym, SymBool, SymInt, SymReal, Unsupported, ctx, lift, _toreal, _sqrt, floor_int

pi = _m.pi
e = _m.e
inf = _m.inf
nan = _m.nan
tau = _m.tau

PI = z3.RealVal(str(Fraction(_m.pi)))
TWO_PI = z3.RealVal(str(Fraction(2.0 * _m.pi)))
HALF_PI = z3.RealVal(str(Fraction(_m.pi) / 2))
# a rational strictly above the true pi (math.pi is below it by 1.2e-16)
PI_UP = z3.RealVal(str(Fraction(_m.pi) + Fraction(1, 10**15)))
EPS_C = Fraction(1, 10**15)


def _q(x):
    f = Fraction(x)
    return z3.RealVal(f"{f.numerator}/{f.denominator}")


def _sym(x):
    return isinstance(x, Sym)


def _cs(x):
    """(cos, sin) z3 reals for the symbolic angle x, memoised per term"""
    c = ctx()
    a = z3.simplify(_toreal(x.e if isinstance(x, Sym) else lift(x)))
    table = c.memo.setdefault("trig", {})
    key = a.get_id()
    if key in table:
        return table[key][:2]
    if z3.is_rational_value(a) or z3.is_algebraic_value(a):
        v = float(Fraction(a.numerator_as_long(), a.denominator_as_long())) if z3.is_rational_value(a) else None
        co = c.fresh("real", "cosk")
        si = c.fresh("real", "sink")
        ax = [co * co + si * si == 1]
        if v is not None:
            cv, sv = Fraction(_m.cos(v)), Fraction(_m.sin(v))
            ax += [co >= _q(cv - EPS_C), co <= _q(cv + EPS_C), si >= _q(sv - EPS_C), si <= _q(sv + EPS_C)]
        c.add_lazy([co, si], ax)
        table[key] = (co, si, a)
        c.memo.setdefault("trig_rev", {})[(co.get_id(), si.get_id())] = a
        return co, si
    co = c.fresh("real", "cos")
    si = c.fresh("real", "sin")
    table[key] = (co, si, a)
    c.memo.setdefault("trig_rev", {})[(co.get_id(), si.get_id())] = a
    ax = [co * co + si * si == 1]
    # alternating Taylor enclosures on |a| <= 1
    a2 = a * a
    ax.append(z3.Implies(z3.And(a >= -1, a <= 1), z3.And(co >= 1 - a2 / 2, co <= 1 - a2 / 2 + a2 * a2 / 24)))
    ax.append(z3.Implies(z3.And(a >= 0, a <= 1), z3.And(si <= a, si >= a - a2 * a / 6)))
    ax.append(z3.Implies(z3.And(a <= 0, a >= -1), z3.And(si >= a, si <= a - a2 * a / 6)))
    ax.append(z3.Implies(a == 0, z3.And(co == 1, si == 0)))
    # sign facts (pi bracketed by PI < pi < PI_UP)
    ax.append(z3.Implies(z3.And(a >= 0, a <= PI), si >= 0))
    ax.append(z3.Implies(z3.And(a <= 0, a >= -PI), si <= 0))
    ax.append(z3.Implies(z3.And(a >= PI_UP, a <= 2 * PI), si <= 0))
    ax.append(z3.Implies(z3.And(a <= -PI_UP, a >= -2 * PI), si >= 0))
    ax.append(z3.Implies(z3.And(a >= -PI / 2, a <= PI / 2), co >= 0))
    ax.append(z3.Implies(z3.And(a >= PI_UP / 2, a <= 3 * PI / 2), co <= 0))
    ax.append(z3.Implies(z3.And(a <= -PI_UP / 2, a >= -3 * PI / 2), co <= 0))
    ax.append(z3.Implies(z3.And(a >= 3 * PI_UP / 2, a <= 2 * PI), co >= 0))
    ax.append(z3.Implies(z3.And(a <= -3 * PI_UP / 2, a >= -2 * PI), co >= 0))
    ax += _structural(c, a, co, si)
    c.add_lazy([co, si], ax)
    return co, si


def _structural(c, a, co, si):
    """angle-sum identities when the angle term is syntactically u+v or k*u with k=-1"""
    if z3.is_add(a) and a.num_args() == 2:
        u, v = a.arg(0), a.arg(1)
        cu, su = _cs(SymReal(u))
        cv, sv = _cs(SymReal(v))
        return [co == cu * cv - su * sv, si == su * cv + cu * sv]
    elif z3.is_add(a) and a.num_args() > 2:
        u = a.arg(0)
        v = z3.simplify(z3.Sum([a.arg(i) for i in range(1, a.num_args())]))
        cu, su = _cs(SymReal(u))
        cv, sv = _cs(SymReal(v))
        return [co == cu * cv - su * sv, si == su * cv + cu * sv]
    elif z3.is_mul(a) and a.num_args() == 2 and z3.is_rational_value(a.arg(0)):
        k = a.arg(0)
        if k.numerator_as_long() == -1 and k.denominator_as_long() == 1:
            cu, su = _cs(SymReal(a.arg(1)))
            return [co == cu, si == -su]
    return []


def cos(x):
    if not _sym(x):
        return _m.cos(x)
    return SymReal(_cs(x)[0])


def sin(x):
    if not _sym(x):
        return _m.sin(x)
    return SymReal(_cs(x)[1])


def tan(x):
    if not _sym(x):
        return _m.tan(x)
    co, si = _cs(x)
    return SymReal(si) / SymReal(co)


def sqrt(x):
    if not _sym(x):
        return _m.sqrt(x)
    return _sqrt(x)


def hypot(x, y):
    if not (_sym(x) or _sym(y)):
        return _m.hypot(x, y)
    xx, yy = _toreal(lift(x)), _toreal(lift(y))
    return _sqrt(SymReal(xx * xx + yy * yy))


def copysign(x, y):
    if not (_sym(x) or _sym(y)):
        return _m.copysign(x, y)
    mag = abs(x) if _sym(x) else _m.fabs(x)
    if _sym(y):
        neg = ctx().decide(_toreal(y.e) < 0)  # (a symbolic real has no negative zero)
    else:
        neg = _m.copysign(1.0, y) < 0
    return -mag if neg else mag


def fabs(x):
    if not _sym(x):
        return _m.fabs(x)
    return abs(SymReal(_toreal(x.e)))


def atan2(y, x):
    if not (_sym(y) or _sym(x)):
        return _m.atan2(y, x)
    c = ctx()
    ye, xe = _toreal(lift(y)), _toreal(lift(x))
    rev = c.memo.get("trig_rev", {})
    d = rev.get((xe.get_id(), ye.get_id()))
    if d is not None:
        # arctan2(sin d, cos d): the wrap of d into (-pi, pi]
        # (the integer number of turns is found by forking, which keeps every query in LRA)
        for j in (0, 1, -1, 2, -2, 3, -3):
            r = d - TWO_PI * j
            if c.decide(z3.And(r > -PI, r <= PI)):
                return SymReal(z3.simplify(r))
        raise BudgetExceeded("angle wrap beyond 3 turns")
    key = ("atan2", ye.get_id(), xe.get_id())
    memo = c.memo.setdefault("atan2", {})
    if key in memo:
        return SymReal(memo[key])
    th = c.fresh("real", "atan2")
    n = _sqrt(SymReal(xe * xe + ye * ye)).e  # shared with any sqrt(x^2+y^2) the code or the oracle forms
    memo[key] = th
    co, si = _cs(SymReal(th))
    ax = [th >= -PI_UP, th <= PI_UP, n * co == xe, n * si == ye]
    # atan2(0, 0) = 0; atan2(0, x>0) = 0; sign of the result is the sign of y
    ax.append(z3.Implies(z3.And(ye == 0, xe >= 0), th == 0))
    ax += [z3.Implies(ye > 0, th > 0), z3.Implies(ye < 0, th < 0)]
    ax.append(z3.Implies(z3.And(ye == 0, xe < 0), th >= PI))
    c.add_lazy([th], ax)
    return SymReal(th)


def atan(q):
    if not _sym(q):
        return _m.atan(q)
    c = ctx()
    qe = z3.simplify(_toreal(q.e))
    if z3.is_rational_value(qe):
        return _m.atan(qe.numerator_as_long() / qe.denominator_as_long())
    memo = c.memo.setdefault("atan", {})
    if qe.get_id() in memo:
        return SymReal(memo[qe.get_id()][1])
    th = c.fresh("real", "atan")
    memo[qe.get_id()] = (qe, th)
    c.add(th > -PI_UP / 2, th < PI_UP / 2)
    co, si = _cs(SymReal(th))
    c.add(co > 0, si == qe * co)
    return SymReal(th)


def fmod(x, m):
    if not (_sym(x) or _sym(m)):
        return _m.fmod(x, m)
    if _sym(m):
        raise Unsupported("fmod with symbolic modulus")
    if not m > 0:
        raise Unsupported("fmod with non-positive modulus")
    c = ctx()
    xe = _toreal(x.e)
    mm = _q(m)
    # truncated quotient found by forking (bounded; the harness bounds the magnitudes)
    if c.decide(xe >= 0):
        for k in range(0, 9):
            if c.decide(xe < mm * (k + 1)):
                return SymReal(z3.simplify(xe - mm * k))
    else:
        for k in range(0, 9):
            if c.decide(xe > -mm * (k + 1)):
                return SymReal(z3.simplify(xe + mm * k))
    raise BudgetExceeded("fmod quotient beyond 8")


def floor(x):
    if not _sym(x):
        return _m.floor(x)
    if isinstance(x, SymInt):
        return x
    return SymInt(floor_int(x.e))


def ceil(x):
    if not _sym(x):
        return _m.ceil(x)
    if isinstance(x, SymInt):
        return x
    return SymInt(-floor_int(-x.e))


def isclose(a, b, rel_tol=1e-09, abs_tol=0.0):
    if not (_sym(a) or _sym(b)):
        return _m.isclose(a, b, rel_tol=rel_tol, abs_tol=abs_tol)
    ae, be = _toreal(lift(a)), _toreal(lift(b))
    ab = lambda t: z3.If(t >= 0, t, -t)
    tol = _q(rel_tol) * z3.If(ab(ae) >= ab(be), ab(ae), ab(be))
    tol = z3.If(tol >= _q(abs_tol), tol, _q(abs_tol))
    return SymBool(ab(ae - be) <= tol)


def isnan(x):
    if not _sym(x):
        return _m.isnan(x)
    return False


def isinf(x):
    if not _sym(x):
        return _m.isinf(x)
    return False


def isfinite(x):
    if not _sym(x):
        return _m.isfinite(x)
    return True


def radians(x):
    return x * (_m.pi / 180.0)


def degrees(x):
    return x * (180.0 / _m.pi)


def __getattr__(name):  # anything else: the real thing, on concrete data only
    f = getattr(_m, name)
    if not callable(f):
        return f

    def guarded(*a, **k):
        if any(_sym(v) for v in a):
            raise Unsupported(f"math.{name} on a symbolic value")
        return f(*a, **k)

    return guarded

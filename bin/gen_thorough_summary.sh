#!/bin/sh
# usage: bin/gen_thorough_summary.sh <log> [<log> ...]  (older logs first) - the summary line of the latest thorough-tier run of every
# property goes into THOROUGH_RUNS.md
python3 - "$@" <<'PY'
import re, sys
last = {}
for f in sys.argv[1:]:
    for line in open(f):
        m = re.match(r"(C\d\d) rc=(\d+) (\d+)s (.*)", line.strip())
        if m:
            last[m.group(1)] = (m.group(2), m.group(3), m.group(4))
out = ["# Thorough tier: latest end-to-end run of every property", "",
       "One property at a time on the 16-core sandbox (`./check <ID> --tier thorough`).  The run includes the self-test: every in-memory seeded",
       "defect of the harness must be reported.  rc=0: every obligation held within its bounds, every seeded defect was reported, nothing was",
       "inconclusive.  Wall time of the whole run (obligations + concrete replays + self-test) in the third column.", "",
       "| property | exit code | run time | summary line |", "|---|---|---|---|"]
for k in sorted(last):
    rc, secs, line = last[k]
    out.append(f"| {k} | {rc} | {secs} s | {line} |")
open("/verif/THOROUGH_RUNS.md", "w").write("\n".join(out) + "\n")
print("THOROUGH_RUNS.md written:", len(last), "properties")
PY

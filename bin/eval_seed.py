#!/usr/bin/env python3
"""usage: bin/eval_seed.py <PROP> <seed_dir> [--tier quick|thorough]
Confirms a seeded change (demo passes without / fails with the patch, the repository's test subset still passes),
runs the property's check with the patch applied to /repo, undoes the patch, and stores everything under /verif/seeded/."""
import json
import os
import shutil
import subprocess
import sys

prop, src = sys.argv[1], sys.argv[2].rstrip("/")
tier = sys.argv[sys.argv.index("--tier") + 1] if "--tier" in sys.argv else "quick"
slug = os.path.basename(src)
dst = os.path.abspath(src) if os.path.abspath(src).startswith("/verif/seeded/") else f"/verif/seeded/{prop}_{slug}"
os.makedirs(dst, exist_ok=True)
for f in ("patch.diff", "demo.py", "notes.txt"):
    if os.path.exists(f"{src}/{f}") and os.path.abspath(src) != os.path.abspath(dst):
        shutil.copy(f"{src}/{f}", f"{dst}/{f}")


def sh(cmd, **kw):
    return subprocess.run(cmd, shell=True, capture_output=True, text=True, **kw)


meta = dict(property=prop, slug=slug, needs=open(f"{dst}/notes.txt").read() if os.path.exists(f"{dst}/notes.txt") else "")
# 1. demo and the repository's test suite in a scratch worktree (does not block /repo)
wt = f"/tmp/evalwt_{os.getpid()}"
sh(f"git -C /repo worktree add --detach {wt} HEAD")
try:
    env = dict(os.environ, PYTHONPATH=wt)
    r0 = sh(f"cd /tmp && /venv/bin/python {dst}/demo.py", env=env)
    meta["demo_without_patch_exit"] = r0.returncode
    ap = sh(f"git -C {wt} apply {dst}/patch.diff")
    if ap.returncode != 0:
        print("patch does not apply:", ap.stderr)
        sys.exit(2)
    r1 = sh(f"cd /tmp && /venv/bin/python {dst}/demo.py", env=env)
    meta["demo_with_patch_exit"] = r1.returncode
    if "--skip-tests" in sys.argv:
        meta["tests_with_patch"] = json.load(open(f"{dst}/meta.json")).get("tests_with_patch", "") if os.path.exists(f"{dst}/meta.json") else ""
    else:
        t = sh(f"cd {wt} && /venv/bin/python -m pytest -q -p no:cacheprovider --timeout=900 tests 2>&1 | tail -3", env=env)
        meta["tests_with_patch"] = t.stdout.strip().splitlines()[-1] if t.stdout.strip() else t.stderr[-200:]
finally:
    sh(f"git -C /repo worktree remove --force {wt}; git -C /repo worktree prune")
# 2. the check against /repo with the patch applied (exclusive use of /repo), undone straight afterwards
import fcntl

open("/tmp/verif_seed_pending", "w").close()  # checks of the unchanged tree that have not started yet wait for this evaluation
with open("/tmp/verif_repo.lock", "w") as lock:
    fcntl.flock(lock, fcntl.LOCK_EX)
    try:
        os.remove("/tmp/verif_seed_pending")
    except OSError:
        pass
    assert sh("git -C /repo diff --quiet").returncode == 0, "repo dirty"
    ap = sh(f"git -C /repo apply {dst}/patch.diff")
    assert ap.returncode == 0, ap.stderr
    try:
        c = sh(f"/verif/check {prop} --tier {tier}", env=dict(os.environ, VERIF_LOCK_HELD="1"))
        out = c.stdout
        meta["check_exit"] = c.returncode
        meta["check_violation_lines"] = [l for l in out.splitlines() if l.startswith("VIOLATION") or l.startswith("  signature")][:8]
        meta["check_summary"] = [l for l in out.splitlines() if l.startswith(prop + " ")][-1:] + [l for l in out.splitlines() if "HARNESS-PROBLEM" in l][:4]
        meta["ran"] = f"git -C /repo apply {dst}/patch.diff; ./check {prop} --tier {tier}; git -C /repo checkout -- ."
    finally:
        sh("git -C /repo checkout -- . && git -C /repo clean -fdq")
        sh(f"git -C /verif checkout -- evidence/{prop}.json")  # the evidence file must describe the unchanged tree
meta["detected"] = meta.get("check_exit") == 1
meta["confirmed"] = meta["demo_without_patch_exit"] == 0 and meta.get("demo_with_patch_exit", 0) != 0 and "346 passed" in meta.get("tests_with_patch", "")
json.dump(meta, open(f"{dst}/meta.json", "w"), indent=1)
print(json.dumps({k: meta[k] for k in ("slug", "confirmed", "detected", "check_exit", "tests_with_patch", "check_summary")}, indent=1))
for l in meta["check_violation_lines"][:4]:
    print(l)

#!/usr/bin/env python3
"""Regenerates /verif/MANIFEST.json from the table below (kept in one place so it is always valid)."""
import json
import os

ROOT = os.path.dirname(os.path.dirname(os.path.abspath(__file__)))
TECH = "bounded symbolic execution of the real Python code (proxy scalars over z3, path exploration by re-execution); " \
       "every claim discharged by z3 (unsat of the negation under the path condition); counterexamples replayed on the unshimmed library"

# property id -> (level text, level_note, design_ref)
CLAIMED = {
    "C16": ("Every Interval / AngleInterval operation named in the property is executed symbolically (real code, real "
            "and int end points as solver variables) and compared with the set semantics; z3 proves each clause for all values "
            "in the stated ranges on every path (LRA/LIA, no magnitude bound).",
            "floats modelled as reals; pi = the double math.pi as a rational; angles, shifts in [-2pi,2pi]; round(x,n) idealised "
            "as exact half-even rounding for n in {None,0..3}", "2/C16"),
}
CLAIMED["C17"] = (
    "TrafficLightCycle.get_state_at_time_step / cycle_init_timesteps / TrafficLight.get_state_at_time_step are executed "
    "symbolically (real numpy cumsum/insert/argmax on object arrays) for cycles of n elements with durations, offset and time "
    "step as unbounded solver integers; z3 proves the window specification, periodicity and agreement on every path.",
    "n <= 4 (quick) / n <= 6 (thorough) cycle elements; durations >= 1, offset >= 0; colours concrete per position; "
    "integer modulo by the symbolic total encoded with quotient/remainder axioms", "2/C17")
CLAIMED["C05"] = (
    "The real translate_rotate code of geometry.transform, every shape class and every state class (exact, region- and "
    "interval-valued) is executed on symbolic coordinates, translations and angles; z3 (nonlinear real arithmetic) proves "
    "that every stored point becomes R(a)(p+t) and every orientation th+a (mod 2pi) for all angles in [-2pi,2pi], using the "
    "same cos/sin symbols in code and oracle.",
    "floats as reals, tolerance 1e-6 on |coordinates|<=1e3; cos/sin axiomatised (unit circle, Taylor enclosures, sign facts, "
    "angle sums); polygons from a small concrete family at a symbolic offset; shapely replaced by shapely-lite", "2/C05")
CLAIMED["C04"] = (
    "occupancy_at_time / state_at_time of every obstacle role (static, dynamic with trajectory, set-based or no prediction, "
    "phantom, environment) and occupancy_shape_from_state run symbolically with the initial time step, the query time and all "
    "poses as solver variables; z3 proves the time pairing, None exactly outside the horizon, and that the occupancy is the "
    "shape placed at the state (point-mass heading = atan2(vy,vx)). Uncertain states: for headings / region orientations / "
    "interval half-widths from finite sets and symbolic sizes and coordinates z3 proves (linear arithmetic over bounding-box "
    "If-chains) that the returned rectangle contains every corner of every extreme placement. Scenario-level queries "
    "(occupancies / states at a time step, role / type filters, position intervals) are proved equal to what the per-obstacle "
    "answers imply on a scenario with one obstacle of every role.",
    "trajectories of <= 3 states; obstacle shapes given in the obstacle frame (centred); floats as reals; trig axiomatised; "
    "uncertain orientations at sampled and corner-alignment angles only", "2/C04")
CLAIMED["C08"] = (
    "GoalRegion.is_reached / PlanningProblem.goal_reached run symbolically against an independently written specification "
    "(time interval, position in rectangle / circle / polygon / shape group / lanelet polygons, angle interval modulo 2pi, "
    "velocity interval, hypot/atan2 for point-mass states); all goal and state values are solver variables and z3 proves the "
    "equivalence on every path, including int-valued states and intervals longer than pi.",
    "1-2 goal states, trajectories of <= 3 states; polygons from a concrete family at a symbolic offset; floats as reals; "
    "shapely replaced by shapely-lite; atan2 axiomatised", "2/C08")
CLAIMED["C09"] = (
    "Bounded model checking of the id pool: every program of k operations (add / remove single and list form / remove lanelet "
    "with and without referenced elements / generate_object_id / replace_lanelet_network) over a universe of 18 objects with "
    "colliding ids runs on the real Scenario in lock-step with an abstract id-pool model; the operation choices are enumerated "
    "exhaustively by the engine's solver-driven path exploration.",
    "k = 2 (quick) / 3 (thorough) operations from a populated scenario; purely discrete state, so the solver enumerates "
    "rather than generalises; longer histories are outside the claim", "2/C09")
CLAIMED["C10"] = (
    "Bounded model checking of reference cleanup: the relation structure of a 3-lanelet / 2-sign / 1-light / 1-intersection "
    "network is symbolic (membership flags as solver variables, one relation kind at a time), each removal operation and each "
    "cut-out (by lanelet type, by a query rectangle at a symbolic position, from a lanelet list) runs on the real code and the "
    "result is compared with the expected structure: no dangling id, survivors untouched, signs/lights kept iff referenced.",
    "universe of 3 lanelets; quick tier: a subset of the flags symbolic, thorough: all flags of the kind; single operations "
    "(sequences are outside the claim); shapely replaced by shapely-lite", "2/C10")
CLAIMED["C20"] = (
    "Lanelet.distance / interpolate_position / merge_lanelets run on symbolic 3-vertex polylines (real numpy on object arrays, "
    "sqrt as a shared fresh non-negative root) and are compared with the arc-length specification; successor / predecessor "
    "route enumeration runs on every directed graph over 3 (quick) / 4 (thorough) lanelets with symbolic adjacency flags, "
    "symbolic lanelet lengths and range limit, and every returned route is checked against the stated route rules.",
    "3 vertices per polyline; graphs of <= 4 lanelets; floats as reals; termination = exhaustion of the path tree within the "
    "budget", "2/C20")
CLAIMED["C11"] = (
    "Symbolic-choice programs of public mutators interleaved with queries (trajectory prediction, dynamic obstacle, lanelet, "
    "lanelet network, traffic-light cycle) run on the real objects; after each program every query is compared, by the solver, "
    "with the same query on an object rebuilt through the public constructors from the current primary data; the history clause "
    "of update_initial_state is checked for symbolic max_history_length and number of updates.",
    "programs of <= 2 (quick) / 3 (thorough) operations; symbolic motions, states, query points and time steps; the network "
    "has 3-4 axis-parallel lanelets; cached lanelet distances are compared after translations only", "2/C11")
CLAIMED["C12"] = (
    "For 41 scenario-element classes two instances are built through the public constructors from symbolic scalar attributes; "
    "the real __eq__/__hash__ code runs on them and z3 decides reflexivity, equality with a deep copy, symmetry, equality of "
    "attribute-wise equal instances (id collections inserted in both orders), inequality under every single-attribute "
    "perturbation (> 1e-10 for reals), equality of the hashed tuples of equal objects, and that hash() does not raise (also "
    "for default optional arguments).",
    "hash()/frozenset shadowed by structural keys; np.array2string idealised as injective on the rounded entries (numpy's "
    "scientific-notation regime is outside); discrete attributes varied one at a time; floats as reals", "2/C12")
CLAIMED["C06"] = (
    "Shape.contains_point and the exported planar geometry of circles, rectangles, polygons and shape groups are compared, for "
    "symbolic parameters and query points, with the sets they denote; find_lanelet_by_position / find_lanelet_by_shape / "
    "Lanelet.contains_points / get_obstacles / map_obstacles_to_lanelets / filter_obstacles_in_network run on four concrete "
    "network layouts built through four construction routes with a symbolic query point / query shape / obstacle position and "
    "are compared with an independently written geometric oracle (per-segment quadrilaterals, separating axes).",
    "shapely and STRtree replaced by shapely-lite / STRtree-lite (closed-set predicates, exact discs); lanelets of <= 3 "
    "vertices; query rectangles axis-parallel; known finding: Circle.shapely_object has half the radius", "2/C06")
CLAIMED["C07"] = (
    "assign_obstacles_to_lanelets, add_objects and remove_obstacle run on a scenario with three edge-adjacent lanelets and a "
    "static / dynamic obstacle at symbolic positions; the recorded centre- and shape-lanelet sets, the per-time-step assignments "
    "and every lanelet registry are compared by the solver with the geometric truth, and add / assign / remove programs keep "
    "the registries the exact inverse of the assignment; removal of a contained obstacle must not raise.",
    "axis-parallel rectangular obstacle shapes; one symbolic position per obligation; programs of 2 (quick) / 3 (thorough) "
    "operations; shapely replaced by shapely-lite; reader-side assignment not covered", "2/C07")
CLAIMED["C13"] = (
    "The real ScenarioID.__str__ runs on symbolic fields (map name as a z3 string, numbers as solver integers rendered by "
    "the str/int contract); the printed template is proved to lie in the language of the library's own benchmark_id_pattern "
    "(translated from re._parser to a z3 regex), printed ids of equal shape are proved to determine their pieces (word "
    "equations, z3 then cvc5) and ids of different shape never to coincide; the library's post-match code of from_benchmark_id "
    "then runs on the matched pieces and must return an equal id that prints identically. Solution ids are printed and "
    "parsed back for every (vehicle model, type, admissible cost) and pairs of them.",
    "alphanumeric non-empty map names; numbers >= 1; 1-3 prediction ids; the C regex engine is replaced by the proved "
    "unambiguity of the template; str(int)/int(str) contract assumed", "2/C13")
CLAIMED["C14"] = (
    "For every trajectory type (PM, ST, KS, KST, MB, input and PM-input vectors; single and cooperative) the real solution "
    "writer builds its element tree from symbolic state values, time steps and computation time, and the real reader parses "
    "that tree back; z3 proves that every value read back is the very term that was written (no arithmetic, no lossy "
    "re-formatting, right field), that time steps come back ascending whatever the document order, and - against the shipped "
    "XSD parsed at run time - that element names match and every numeral lies in the lexical space of its XSD type.",
    "element tree handed from writer to reader (serialiser contract); str(float)/float(str) and str(int)/int(str) contracts; "
    "date attribute, minidom pretty printing and processor_name='auto' outside", "2/C14")
CLAIMED["C01"] = (
    "25 skeleton scenarios (lanelets with stop line and references, signs, lights, intersection, every obstacle role and shape "
    "kind, six state classes, set-based predictions, signal states, region/interval-valued states, planning problems with "
    "every goal-position kind, header/location) are built through the public constructors with every numeric and boolean "
    "leaf symbolic, written by the real XML node builders into a DOM tree and read back by the real reader factories; z3 "
    "proves for every leaf that discrete values are identical and reals differ by less than 10^-d, for the number-formatting "
    "contract of str/format/float; float_to_str is proved separately for every float and precision 1..12.",
    "DOM passthrough instead of lxml/expat; repr/float contract; all real leaves of an obligation in one magnitude regime "
    "(normal or tiny); precision in {1,4,12} quick / 1..12 thorough; known finding: traffic-sign 'virtual' flag", "2/C01")
CLAIMED["C03"] = (
    "The shipped XSD is parsed at run time by a small schema interpreter; the trees the real XML node builders produce for 23 "
    "schema-expressible skeleton scenarios with symbolic leaves are validated against it: content models and key/keyref "
    "concretely per path, and for every numeric / boolean leaf z3 decides membership in the lexical and value space of its XSD "
    "type for all values of the magnitude regime (normal, and tiny where exponent notation would appear); the library's own "
    "reader must accept the tree. Concrete replays validate the real bytes with lxml.",
    "DOM passthrough; number-formatting contract for str/format/format_float_positional; decimal precision in {1,4,12}; "
    "xsd-lite covers the constructs the shipped schema uses", "2/C03")
CLAIMED["C15"] = (
    "Bounded model checking of writer histories: every sequence of up to 3 (quick) / 4 (thorough) steps over two writers "
    "(construct A, construct B as XML or protobuf, write_to_file / write_scenario_to_file on either) is executed symbolically "
    "with both decimal precisions symbolic in 1..12 and every numeric leaf of the scenario symbolic; after each write z3 decides "
    "that the tree handed to the serialiser equals, leaf by leaf, the tree a fresh identically constructed writer produces. "
    "The overwrite policy (ALWAYS / SKIP x file exists x format x method x foreign writer in between, second write on the same "
    "object) is explored exhaustively on real files.",
    "histories <= 4 steps, two writers (XML and protobuf writes, the latter on message stubs with the bytes handed to the file "
    "captured as the message they serialise); lxml serialisation and the protobuf wire format outside", "2/C15")
CLAIMED["C02"] = (
    "Message passthrough: the real XxxMessage.create_message builders run symbolically against stub message objects generated "
    "at run time from the repository's *_pb2 DESCRIPTORs (proto2 presence / oneof / defaults / scalar type checks / required "
    "fields); the stub tree is handed to the real XxxFactory.create_from_message readers. For 24 skeleton scenarios with "
    "symbolic leaves plus obligations for optional data (first occurrences, virtual flag, environment / time / geo "
    "transformation, default-constructed obstacles, partially populated signal states, partial goal-lanelet tables) z3 proves "
    "that every real read back is the identical term and discrete content is identical. The stub is validated field by field "
    "and byte for byte against google.protobuf on concrete messages (obligation stub-vs-real); concrete replays use the real bytes.",
    "wire format outside (assumed lossless); skeleton size bounds; KST hitch angle has no .proto field", "2/C02")
CLAIMED["C18"] = (
    "Snapshot / operate / snapshot with symbolic leaves: a scenario whose positions, velocities and interval bounds are symbolic "
    "(trajectory state class and goal-lanelet table kind chosen by forks) is observed through its public attributes, the element "
    "tree of an XML export and the message tree of a protobuf export; a symbolically chosen history of 1 (quick) / 2 (thorough) "
    "read-only operations (obstacle / scenario / lanelet / traffic-light queries with symbolic time steps, further look-ups such as "
    "find_lanelet_by_shape, map_obstacles_to_lanelets, get_obstacles, successor enumeration and str(), goal checks, ==, hash, "
    "deepcopy, XML export, protobuf export) runs on the real code; z3 proves every leaf of the second observation equal to the "
    "first and the structure is compared per path. Pickling and drawing + rendering cannot carry proxies: they are explored over "
    "every discrete alternative on concrete leaves with the real lxml / protobuf bytes as observation.",
    "histories <= 2 operations; private caches are not observed; pickle / matplotlib on concrete leaves", "2/C18")
CLAIMED["C19"] = (
    "The real MPRenderer runs with symbolic integer time parameters (time_begin, time_end, initial time steps of the obstacles): "
    "every comparison of its time-window guards is a z3-decided fork, so all windows within the bounds (before, at both ends of, "
    "inside and after each horizon) are covered; on each path the patches collected between draw and render are compared with "
    "the occupancies the model reports and the lanelet fill polygons with the (selected) lanelets. BaseParam propagation is "
    "checked for every (group, parameter) pair of MPDrawParams with symbolic values after a symbolic earlier setting on a nested "
    "group (z3 proves every declaring nested group holds the new value, also when old and new value coincide). Totality: every "
    "combination of 6-7 draw flags per obligation x symbolic time_begin with real matplotlib (Agg).",
    "window <= 4 steps, horizons <= 3 steps, concrete geometry; pixel output, video creation and traffic-sign images outside", "2/C19")
NOT_YET = {}

props = [json.loads(l) for l in open(os.path.join(ROOT, "properties.jsonl"))]
checks, na = [], []
for p in props:
    i = p["id"]
    if i in CLAIMED:
        text, note, ref = CLAIMED[i]
        checks.append(dict(
            property_id=i,
            quick_cmd=f"./check {i} --tier quick",
            thorough_cmd=f"./check {i} --tier thorough",
            evidence_file=f"evidence/{i}.json",
            replay_cmd_template=f"./check {i} --replay {{path}}",
            engine="symex",
            level_claimed=dict(category="model_checking", text=text, design_ref=f"DESIGN.md section {ref}"),
            level_note=note,
            technique=TECH,
        ))
    else:
        na.append(dict(property_id=i, reason=NOT_YET.get(i, "check not built yet in this round (planned, see DESIGN.md section 2)")))
m = dict(
    version=1,
    setup_cmd="./bin/setup.sh",
    hooks=dict(guard="COMMONROAD_IO_VERIF", enable="no source hooks are needed: shims are installed into the freshly imported "
               "/repo modules by the check process (module-global shadowing)",
               baseline_off_cmd="cd /repo && /venv/bin/python -m pytest -ra -q -p no:cacheprovider --timeout=900 "
                                "--continue-on-collection-errors", source_commits=[], add_only=True),
    engines=[dict(name="symex", path="symex/", serves_properties=sorted(CLAIMED),
                  kind_free_text="proxy-based symbolic executor for Python over z3 (DFS by re-execution), with contract stubs "
                                 "for numpy/shapely/lxml/protobuf boundaries; cvc5 for string word equations")],
    checks=checks,
    not_applicable=na,
    notes="Exit codes: 0 = held on everything explored; 1 = VIOLATION (replayed on the real code); 3 = harness problem / "
          "inconclusive (never reported as a violation). Known findings: known_findings.json.",
)
json.dump(m, open(os.path.join(ROOT, "MANIFEST.json"), "w"), indent=1)
print("claimed:", sorted(CLAIMED), "not applicable:", [x["property_id"] for x in na])

#!/bin/sh
# Builds /verif/.venv: an overlay on /venv (the repository's environment) that adds z3-solver,
# cvc5 and crosshair-tool from the offline wheelhouse.  Idempotent; no network.
set -e
V=/verif/.venv
if [ -x "$V/bin/python" ] && "$V/bin/python" -c "import z3, numpy, shapely" 2>/dev/null; then
  exit 0
fi
rm -rf "$V"
/venv/bin/python -m venv "$V"
SP=$("$V/bin/python" -c "import sysconfig; print(sysconfig.get_paths()['purelib'])")
echo "import site; site.addsitedir('/venv/lib/python3.12/site-packages')" > "$SP/_base.pth"
PIP_NO_INDEX=1 "$V/bin/pip" install -q --no-index --find-links /opt/veriftools/wheels z3-solver cvc5 >/dev/null 2>&1 || \
  PIP_NO_INDEX=1 "$V/bin/pip" install -q --no-index --find-links /opt/veriftools/wheels z3-solver
"$V/bin/python" -c "import z3, numpy, shapely; print('verif venv ok', z3.get_version_string())"

#!/bin/sh
# usage: bin/try_patch.sh <patch.diff> <ID> [check args...]   - apply a seeded change to /repo, run one check, undo
if [ -z "$VERIF_LOCK_HELD" ]; then VERIF_LOCK_HELD=1; export VERIF_LOCK_HELD; exec flock /tmp/verif_repo.lock "$0" "$@"; fi
P=$(realpath "$1"); shift
git -C /repo diff --quiet || { echo "repo dirty"; exit 9; }
git -C /repo apply "$P" || { echo "patch does not apply"; exit 9; }
ID="$1"
# undo the patch and put back the committed evidence file (it must describe the unchanged tree)
trap 'git -C /repo checkout -- . ; git -C /repo clean -fdq; git -C /verif checkout -- "evidence/$ID.json" 2>/dev/null' EXIT INT TERM
/verif/check "$@"
echo "exit=$?"

#!/bin/sh
# usage: bin/try_patch.sh <patch.diff> <ID> [check args...]   - apply a seeded change to /repo, run one check, undo
P=$(realpath "$1"); shift
git -C /repo diff --quiet || { echo "repo dirty"; exit 9; }
git -C /repo apply "$P" || { echo "patch does not apply"; exit 9; }
trap 'git -C /repo checkout -- . ; git -C /repo clean -fdq' EXIT INT TERM
/verif/check "$@"
echo "exit=$?"

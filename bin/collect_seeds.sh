#!/bin/sh
# usage: bin/collect_seeds.sh <ID>   - copy a sub-agent's two seeded changes from /tmp/seedout_<ID>/{1,2} to /verif/seeded/,
# remove its scratch worktree, evaluate both (bin/eval_seed.py)
p="$1"
for k in 1 2; do
    [ -f /tmp/seedout_$p/$k/patch.diff ] || continue
    slug=$(head -1 /tmp/seedout_$p/$k/notes.txt | tr -d ' `*#' | sed 's/^[Ss]lug://' | cut -c1-70)
    d=/verif/seeded/${p}_$slug
    mkdir -p "$d"; cp /tmp/seedout_$p/$k/patch.diff /tmp/seedout_$p/$k/demo.py /tmp/seedout_$p/$k/notes.txt "$d"/
    echo "$d"
done
git -C /repo worktree remove --force /tmp/seedwt_$p 2>/dev/null; git -C /repo worktree prune
for k in 1 2; do
    [ -f /tmp/seedout_$p/$k/patch.diff ] || continue
    slug=$(head -1 /tmp/seedout_$p/$k/notes.txt | tr -d ' `*#' | sed 's/^[Ss]lug://' | cut -c1-70)
    python3 /verif/bin/eval_seed.py $p /verif/seeded/${p}_$slug 2>&1 | grep -E '"slug"|"confirmed"|"detected"|"check_exit"|tests_with|quick:|HARNESS|does not apply' | cut -c1-220
done
rm -rf /tmp/seedout_$p
